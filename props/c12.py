# -*- coding: utf-8 -*-
"""C12 - reaction text is read exactly as written; printing and parsing are inverse; a copy equals its original.

Every case is a description (sides as lists of written terms over a pool of species keys); chempy sees only the
rendered line / the objects built from the description; the expected stoichiometry is summed from the description
with Fractions.  Nothing here calls the parser to compute an expected value.
"""
import re
from fractions import Fraction

from hypothesis import strategies as st

from vlib import env  # noqa  (sys.path)
from vlib.harness import SubCheck, sut, is_err, short
from vlib import gen_formula as G

PROPERTY = "C12"
LEVEL = "exploration"
RULE = ("A reaction line is rendered from a description: 0-4 terms per side over a pool of 1-5 space-free keys (G1 "
        "formulas incl. keys beginning with ( [ {, charges, phases, primes, hydrates, prefixes; plain names; names "
        "beginning with digits such as 13CO2, 15(NH4)2SO4, 2-propanol), each term "
        "written bare / 'n X' / 'n * X' / 'n.0 X' / decimal 'n.d X' (n 0..999, d a multiple of 1/8 in 1-3 decimals), "
        "optionally as inactive group '(n X)', repeats summed, arrow "
        "'->' or '=', optional '; param' (int, float over 35 decades, None) and '; name=.., ref=..'; the expected "
        "reac/prod/inact_reac/inact_prod are summed from the description with Fractions.  Unknown-key rejection: one used "
        "key removed from the allowed list (list / space separated str / dict).  Round trip: objects built by the "
        "constructors from the description (no inactive groups, no name; coefficients 1..1000, 'n.0' floats and "
        "non-integral decimals 0.001..999.999 with 1-3 decimals, the latter with checks=()), printed, parsed back and "
        "compared field by field with the description (coefficients exactly; parameter to 3 significant digits, exactly "
        "when written with <= 3).  Systems: 1-6 "
        "reaction lines with comments, blank and indented lines; 40 % pass `comment_tokens` (1-3 of # // -- %% ! "
        "REM ;; /*) and write their comment lines (plain, indented, containing arrows) with those.  Copy: objects whose four sides are given as OrderedDicts in arbitrary key order (or plain "
        "dicts), non-trivial when a side is not in sorted order.  Non-trivial = a key beginning with a bracket or carrying "
        "a charge, together with a coefficient > 1 or a repeated key; distinct by case digest.")
ASSUMPTIONS = ["vlib/gen_formula.py renders the G1 species keys (text only; the composition plays no role here)",
               "keys that are entirely one parenthesised group are excluded (ambiguous with an inactive group): such a "
               "generated key gets the count 2 appended",
               "written decimal coefficients of the `parse`/`system` lines are multiples of 1/8 below 1000, so float sums "
               "of repeats are exact and compared exactly",
               "a constructed decimal coefficient 'n.ddd' is the Python float of that literal; it has to come back from "
               "print->parse as exactly that float (no sums occur: the keys of one side are distinct)",
               "a printed float parameter is compared with float('%.3g' % p) (the documented printed precision)"]

PLAIN = ["A", "B", "C", "X", "Y", "R1", "foo", "prod_2", "H2O", "O2", "NaCl", "OH-", "Fe+3", "e-"]
# keys that start with digits directly followed by a letter, a bracket or punctuation (isotope labels, locants):
# '13CO2', '3He', '18O2', '2H2O', '14C6H12O6', '15(NH4)2SO4', '99[TcO4]-', '2-propanol', '1,2-dichloroethane' ...
DIGIT_HEADS = ["13", "2", "3", "18", "14", "1", "15", "99", "235", "0"]
DIGIT_TAILS = ["CO2", "He", "O2", "H2O", "C6H12O6", "H+", "(NH4)2SO4", "[TcO4]-", "{Fe}+3", "A", "foo", "-propanol",
               ",2-dichloroethane", "'X", "CO3-2(aq)"]


# ---------------------------------------------------------------------------------------------
# keys
# ---------------------------------------------------------------------------------------------

def _whole_paren_group(s):
    """Own reading of the notation: is s exactly one '(...)' group?  (index of the partner of s[0] is the last)"""
    if not (s.startswith("(") and s.endswith(")")):
        return False
    depth = 0
    for i, c in enumerate(s):
        if c == "(":
            depth += 1
        elif c == ")":
            depth -= 1
            if depth == 0:
                return i == len(s) - 1
    return False


def key_text(k):
    return k["name"] if "name" in k else G.text(k["f"])


@st.composite
def keys(draw, formula_only=False):
    k = draw(st.integers(0, 9))
    if k < 2 and not formula_only:
        return {"name": draw(st.sampled_from(PLAIN))}
    if k == 2 and not formula_only:
        return {"name": draw(st.sampled_from(DIGIT_HEADS)) + draw(st.sampled_from(DIGIT_TAILS))}
    f = draw(G.formulas(max_depth=2, max_terms=3, max_hydrates=1))
    if k >= 7 and not f["electron"]:
        # a key that begins with a bracket: put a group in front
        br = draw(st.sampled_from(["(", "(", "(", "[", "{"]))
        grp = {"br": br, "terms": [{"el": draw(st.sampled_from(["N", "O", "C", "Fe"])), "count": "", "primes": ""},
                                   {"el": "H", "count": draw(st.sampled_from(["", "2", "4"])), "primes": ""}],
               "count": draw(st.sampled_from(["2", "", "3"])), "primes": ""}
        f = dict(f, prefix="", parts=[{"n": 1, "terms": [grp] + f["parts"][0]["terms"]}] + f["parts"][1:])
    if _whole_paren_group(G.text(f)):
        # excluded by the notation: '(X)' is an inactive group.  Make it '(X)2'.
        terms = list(f["parts"][0]["terms"])
        terms[-1] = dict(terms[-1], count="2")
        f = dict(f, parts=[{"n": 1, "terms": terms}] + f["parts"][1:])
    return {"f": f}


def key_pool(n_max=5, formula_only=False):
    return st.lists(keys(formula_only=formula_only), min_size=1, max_size=n_max).map(_distinct)


def _distinct(pool):
    seen, out = set(), []
    for k in pool:
        t = key_text(k)
        if t not in seen:
            seen.add(t)
            out.append(k)
    return out


def digit_key_labels(terms, kt):
    """how a key beginning with a digit is written in a line"""
    out = set()
    for t in terms:
        if kt[t["k"]][:1].isdigit():
            out.add("digit_key")
            out.add("digit_key:" + ("bare" if t["c"] == "" else "star" if t["star"] else "coefficient"))
            if t["inactive"]:
                out.add("digit_key:inactive")
    return sorted(out)


def key_is_interesting(t):
    return t[:1] in "([{" or bool(re.search(r"[+-]\d*(\((s|l|g|aq)\))?$", t))


# ---------------------------------------------------------------------------------------------
# one reaction line
# ---------------------------------------------------------------------------------------------

_EIGHTHS = ["5", "25", "75", "125", "375", "625", "875", "50", "250"]     # exact binary fractions, 1-3 decimals


def _int_part(draw):
    """integer part of a decimal coefficient: 0 (simplest), 1..9, 10..99, 100..999 - all magnitudes up to 10^3"""
    m = draw(st.integers(0, 6))
    if m == 0:
        return 0
    if m < 3:
        return draw(st.integers(1, 9))
    if m < 5:
        return draw(st.integers(10, 99))
    return draw(st.integers(100, 999))


def _decimal_text(draw):
    """a non-integral decimal literal 'n.d', n 0..999, 1-3 decimals (d != 0): 0.5, 1.5, 12.25, 106.5, 999.975 ..."""
    nd = draw(st.integers(1, 3))
    return "%d.%0*d" % (_int_part(draw), nd, draw(st.integers(1, 10 ** nd - 1)))


@st.composite
def _term(draw, npool, allow_inactive=True, allow_decimal=True):
    k = draw(st.integers(0, npool - 1))
    s = draw(st.integers(0, 12))
    star = False
    if s < 4:
        c = ""
    elif s < 8:
        c = str(draw(st.integers(1, 12)))
    elif s == 8:
        c = str(draw(st.integers(13, 1000)))
    elif s == 9:
        c = str(draw(st.integers(2, 9)))
        star = True
    elif s == 10 or not allow_decimal:
        c = "%d.0" % draw(st.integers(1, 20))
    else:
        c = "%d.%s" % (_int_part(draw), draw(st.sampled_from(_EIGHTHS)))
    inactive = allow_inactive and draw(st.integers(0, 9)) >= 8
    return {"k": k, "c": c, "star": star, "inactive": inactive}


def _param_text(draw):
    """None (no '; param' part), 'None', an int literal or a float literal over 35 decades."""
    p = draw(st.integers(0, 9))
    if p < 3:
        return None
    if p == 3:
        return "None"
    if p < 6:
        return str(draw(st.integers(1, 10 ** draw(st.integers(1, 12)))))
    mant = draw(st.integers(1, 999999))
    exp = draw(st.integers(-20, 14))
    sci = "%de%d" % (mant, exp)
    return sci if draw(st.booleans()) else repr(float(sci))


_NAMES = ["r1", "fwd", "R_12", "water split", "k-1", "a+b", "2nd"]
_REFS = ["doi:10.1000/xyz123", "Smith 1999", "p. 42", "important_paper"]


@st.composite
def lines(draw, kinds=("Reaction", "Equilibrium"), allow_inactive=True, allow_decimal=True, pool=None,
          allow_kw=True):
    pool = draw(key_pool()) if pool is None else pool
    n = len(pool)
    sides = []
    for _ in range(2):
        nt = draw(st.integers(1, 4)) if draw(st.integers(0, 19)) < 19 else 0
        sides.append([draw(_term(n, allow_inactive, allow_decimal)) for _ in range(nt)])
    param = _param_text(draw)
    kw = {}
    if allow_kw and param is not None and draw(st.integers(0, 9)) >= 7:
        if draw(st.booleans()):
            kw["name"] = draw(st.sampled_from(_NAMES))
        if draw(st.booleans()) or not kw:
            kw["ref"] = draw(st.sampled_from(_REFS))
    return {"kind": draw(st.sampled_from(list(kinds))), "keys": pool, "reac": sides[0], "prod": sides[1],
            "param": param, "kw": kw,
            "semi": draw(st.sampled_from(["; ", "; ", ";", " ; "])),
            "trail": bool(param is not None and not kw and draw(st.integers(0, 9)) == 9)}


def term_text(t, keytexts):
    inner = keytexts[t["k"]]
    if t["c"] != "":
        inner = t["c"] + (" * " if t["star"] else " ") + inner
    return "(" + inner + ")" if t["inactive"] else inner


def line_text(case):
    kt = [key_text(k) for k in case["keys"]]
    arrow = "->" if case["kind"] == "Reaction" else "="
    lhs = " + ".join(term_text(t, kt) for t in case["reac"])
    rhs = " + ".join(term_text(t, kt) for t in case["prod"])
    s = (lhs + " " if lhs else "") + arrow + (" " + rhs if rhs else "")
    if case["param"] is not None:
        s += case["semi"] + case["param"]
        if case["kw"]:
            s += case["semi"] + ", ".join("%s='%s'" % (k, case["kw"][k]) for k in sorted(case["kw"]))
        elif case["trail"]:
            s += ";"
    return s


def expected_of(case):
    """{'reac': {key: Fraction}, 'prod':.., 'inact_reac':.., 'inact_prod':.., 'param': value|None, 'name', 'ref'}"""
    kt = [key_text(k) for k in case["keys"]]
    exp = {"reac": {}, "prod": {}, "inact_reac": {}, "inact_prod": {}}
    for side in ("reac", "prod"):
        for t in case[side]:
            d = exp[("inact_" + side) if t["inactive"] else side]
            d[kt[t["k"]]] = d.get(kt[t["k"]], Fraction(0)) + (Fraction(t["c"]) if t["c"] != "" else Fraction(1))
    exp["param"] = param_value(case["param"])
    exp["name"] = case["kw"].get("name")
    exp["ref"] = case["kw"].get("ref")
    return exp


def param_value(text):
    if text is None or text == "None":
        return None
    if re.match(r"^[0-9]+$", text):
        return int(text)
    return float(text)


def needs_no_checks(exp):
    """chempy's constructor refuses (by design) reactions without net effect and non-integral coefficients unless
    those checks are switched off; that is the caller's precondition, not part of this property."""
    net = {}
    for name, sign in (("reac", -1), ("inact_reac", -1), ("prod", 1), ("inact_prod", 1)):
        for k, v in exp[name].items():
            net[k] = net.get(k, Fraction(0)) + sign * v
            if v.denominator != 1:
                return True
    return not any(v != 0 for v in net.values())


def _same_number(got, want):
    """exact: ints and floats convert to Fractions without rounding."""
    if isinstance(got, bool) or not isinstance(got, (int, float)):
        return False
    if isinstance(got, float) and (got != got or got in (float("inf"), float("-inf"))):
        return False
    return Fraction(got) == want


def _show(v):
    """readable form of an expected coefficient (a Fraction that may be the exact value of a float)"""
    return str(v) if v.denominator <= 1000 else repr(float(v))


def judge_stoich(ctx, rxn, exp, what, text):
    ok = True
    for name in ("reac", "prod", "inact_reac", "inact_prod"):
        got = getattr(rxn, name)
        want = exp[name]
        try:
            gk = list(got.keys())
        except AttributeError:
            ctx.fail("side_not_a_mapping:" + what, text=text, side=name, got=repr(got)[:200])
            return False
        if sorted(gk) != sorted(want):
            ctx.fail("species:" + what, text=text, side=name, got=sorted(map(str, gk)), expected=sorted(want))
            ok = False
            continue
        for k in want:
            if not _same_number(got[k], want[k]):
                ctx.fail("coefficient:" + what, text=text, side=name, key=k, got=repr(got[k]), expected=_show(want[k]))
                ok = False
                break
    return ok


def judge_param(ctx, got, want, what, text):
    if want is None:
        if got is not None:
            ctx.fail("param:" + what, text=text, got=repr(got)[:100], expected=None)
            return False
        return True
    if isinstance(got, bool) or not isinstance(got, (int, float)) or got != want:
        ctx.fail("param:" + what, text=text, got=repr(got)[:100], expected=repr(want))
        return False
    return True


def _allowed(case, keytexts_used, all_keytexts):
    """-> (substance_keys argument, missing key or None)"""
    mode = case["subst"]["mode"]
    if mode == "none":
        return None, None
    allowed = list(all_keytexts)
    missing = None
    if mode == "missing" and keytexts_used:
        missing = keytexts_used[case["subst"]["j"] % len(keytexts_used)]
        allowed = [k for k in allowed if k != missing]
    allowed = allowed + [x for x in case["subst"]["extra"] if x not in all_keytexts]
    form = case["subst"]["form"]
    if form == "str" and len(allowed) >= 2:
        return " ".join(allowed), missing
    if form == "dict":
        return {k: None for k in allowed}, missing
    if form == "tuple":
        return tuple(allowed), missing
    return allowed, missing


def check_parse(case, ctx):
    import chempy
    Cls = getattr(chempy, case["kind"])
    text = line_text(case)
    exp = expected_of(case)
    kt = [key_text(k) for k in case["keys"]]
    used = [k for k in kt if any(k in exp[n] for n in ("reac", "prod", "inact_reac", "inact_prod"))]
    terms = case["reac"] + case["prod"]
    repeat = any(sum(1 for t in case[s] if t["k"] == u["k"] and t["inactive"] == u["inactive"]) > 1
                 for s in ("reac", "prod") for u in case[s])
    big = any(t["c"] not in ("", "1") for t in terms)
    interesting = any(key_is_interesting(k) for k in used)
    ctx.nontrivial(interesting and (big or repeat))
    ctx.label(case["kind"], "subst=" + case["subst"]["mode"], "param=" + (
        "absent" if case["param"] is None else "None" if case["param"] == "None" else
        "int" if re.match(r"^[0-9]+$", case["param"]) else "float"))
    if repeat:
        ctx.label("repeat")
    if any(t["inactive"] for t in terms):
        ctx.label("inactive")
    if any(t["star"] for t in terms):
        ctx.label("star")
    if any("." in t["c"] for t in terms):
        ctx.label("decimal_coef")
    if any(k[:1] == "(" for k in used):
        ctx.label("key_starts_with_paren")
    if any(k[:1] in "[{" for k in used):
        ctx.label("key_starts_with_[{")
    for lbl in digit_key_labels(case["reac"] + case["prod"], kt):
        ctx.label(lbl)
    if any(k[:1] == "(" and any(t["inactive"] and kt[t["k"]] == k for t in terms) for k in used):
        ctx.label("paren_key_inside_inactive_group")
    if case["kw"]:
        ctx.label("kw")
    if not case["reac"] or not case["prod"]:
        ctx.label("empty_side")

    kwargs = {}
    if needs_no_checks(exp):
        kwargs["checks"] = ()
        ctx.label("checks=()")
    allowed, missing = _allowed(case, used, kt)
    got = sut(Cls.from_string, text, allowed, **kwargs)
    if missing is not None:
        ctx.label("expect_rejection")
        if not is_err(got):
            ctx.fail("unknown_key_accepted", text=text, allowed=short(repr(allowed), 300), missing=missing)
        return
    if is_err(got):
        ctx.fail("valid_line_rejected", text=text, allowed=short(repr(allowed), 300), error=repr(got))
        return
    if type(got) is not Cls:
        ctx.fail("wrong_class", text=text, got=type(got).__name__)
        return
    judge_stoich(ctx, got, exp, "parse", text)
    judge_param(ctx, got.param, exp["param"], "parse", text)
    if got.name != exp["name"] or got.ref != exp["ref"]:
        ctx.fail("keyword:parse", text=text, got=[repr(got.name), repr(got.ref)], expected=[exp["name"], exp["ref"]])
    # a copy compares equal to its original (all fields, judged with own comparison, then chempy's ==)
    cp = got.copy()
    if type(cp) is not Cls:
        ctx.fail("wrong_class:copy", text=text, got=type(cp).__name__)
        return
    if judge_stoich(ctx, cp, exp, "copy", text) and judge_param(ctx, cp.param, exp["param"], "copy", text):
        if cp.name != exp["name"] or cp.ref != exp["ref"] or cp.data != got.data:
            ctx.fail("keyword:copy", text=text, got=[repr(cp.name), repr(cp.ref), repr(cp.data)[:100]],
                     expected=[exp["name"], exp["ref"], repr(got.data)[:100]])
        elif not (cp == got) or not (got == cp) or (cp != got):
            ctx.fail("copy_not_equal", text=text)


@st.composite
def parse_cases(draw):
    case = draw(lines())
    m = draw(st.integers(0, 9))
    mode = "none" if m < 3 else ("known" if m < 7 else "missing")
    case["subst"] = {"mode": mode, "form": draw(st.sampled_from(["list", "str", "dict", "tuple"])),
                     "j": draw(st.integers(0, 7)),
                     "extra": draw(st.lists(st.sampled_from(["Q", "H2O2", "Zz+", "(NH4)2S", "N2(g)"]), max_size=2, unique=True))}
    return case


# ---------------------------------------------------------------------------------------------
# print -> parse round trip of constructed objects
# ---------------------------------------------------------------------------------------------

@st.composite
def _coef(draw, allow_decimal=True):
    s = draw(st.integers(0, 12))
    if s < 4:
        return "1"
    if s < 9:
        return str(draw(st.integers(2, 12)))
    if s == 9:
        return str(draw(st.integers(13, 1000)))
    if s == 10 or not allow_decimal:
        return "%d.0" % draw(st.integers(1, 20))
    return _decimal_text(draw)


def _rt_param(draw):
    """None | {'t': 'int', 'v': '42'} | {'t': 'float', 'v': '1.23e-05'} - floats with 1..6 significant digits"""
    p = draw(st.integers(0, 9))
    if p < 2:
        return None
    if p < 4:
        return {"t": "int", "v": str(draw(st.integers(1, 10 ** draw(st.integers(1, 12)))))}
    nd = draw(st.sampled_from([1, 2, 3, 3, 3, 4, 6]))
    mant = draw(st.integers(10 ** (nd - 1), 10 ** nd - 1))
    exp = draw(st.integers(-20, 14))
    return {"t": "float", "v": "%de%d" % (mant, exp)}


@st.composite
def objects(draw, kinds=("Reaction", "Equilibrium"), pool=None, allow_decimal=True):
    pool = draw(key_pool()) if pool is None else pool
    n = len(pool)
    sides = []
    for _ in range(2):
        nt = draw(st.integers(1, min(4, n))) if draw(st.integers(0, 19)) < 19 else 0
        idx = draw(st.lists(st.integers(0, n - 1), min_size=nt, max_size=nt, unique=True))
        sides.append([[i, draw(_coef(allow_decimal))] for i in idx])
    return {"kind": draw(st.sampled_from(list(kinds))), "keys": pool, "reac": sides[0], "prod": sides[1],
            "param": _rt_param(draw)}


def _num(c):
    return float(c) if "." in c else int(c)


def coef_labels(coefs):
    """classes of the written coefficients of a constructed object"""
    out = set()
    for c in coefs:
        if "." not in c:
            continue
        out.add("decimal_coef")
        if Fraction(c).denominator != 1:
            out.add("nonintegral_coef")
            if Fraction(c) < 1:
                out.add("nonintegral_coef<1")
            if Fraction(c) > 100:
                out.add("nonintegral_coef>100")
            if len(c.replace(".", "").strip("0")) > 3:
                out.add("nonintegral_coef_4+_significant_digits")
    return sorted(out)


def object_expectation(case):
    kt = [key_text(k) for k in case["keys"]]
    # Fraction(_num(c)): the exact value of the int/float the object is built with (build_object uses the same _num)
    exp = {"reac": {kt[i]: Fraction(_num(c)) for i, c in case["reac"]},
           "prod": {kt[i]: Fraction(_num(c)) for i, c in case["prod"]},
           "inact_reac": {}, "inact_prod": {}}
    return exp


def build_object(case, no_checks):
    import chempy
    Cls = getattr(chempy, case["kind"])
    kt = [key_text(k) for k in case["keys"]]
    p = case["param"]
    param = None if p is None else (int(p["v"]) if p["t"] == "int" else float(p["v"]))
    kw = {"checks": ()} if no_checks else {}
    return Cls({kt[i]: _num(c) for i, c in case["reac"]}, {kt[i]: _num(c) for i, c in case["prod"]}, param, **kw), param


def printed_param(param):
    """-> (value expected after print+parse, exact?)"""
    if param is None or isinstance(param, int):
        return param, True
    back = float("%.3g" % param)    # the printed precision stated by the property: 3 significant digits
    return back, back == param


def judge_roundtrip(ctx, case, rxn, param, exp, no_checks, what, allowed=None):
    """print rxn, parse it back, compare with the description.  Returns the parsed object or None."""
    Cls = type(rxn)
    text = str(rxn)
    text2 = rxn.string(with_param=True)
    if not isinstance(text, str) or text != text2:
        ctx.fail("str_differs_from_string:" + what, str=repr(text)[:300], string=repr(text2)[:300])
        return None
    kw = {"checks": ()} if no_checks else {}
    back = sut(Cls.from_string, text, allowed, **kw)
    if is_err(back):
        ctx.fail("printed_text_rejected:" + what, text=text, error=repr(back))
        return None
    if type(back) is not Cls:
        ctx.fail("wrong_class:" + what, text=text, got=type(back).__name__)
        return None
    want_param, exact = printed_param(param)
    ok = judge_stoich(ctx, back, exp, what, text)
    ok = judge_param(ctx, back.param, want_param, what, text) and ok
    if ok:
        for name in ("reac", "prod"):
            if list(getattr(back, name).keys()) != sorted(exp[name]):
                ctx.fail("stored_order:" + what, text=text, side=name, got=list(getattr(back, name).keys()))
                return back
        if exact and (not (back == rxn) or not (rxn == back) or (back != rxn)):
            ctx.fail("roundtrip_not_equal:" + what, text=text)
    return back


def check_roundtrip(case, ctx):
    exp = object_expectation(case)
    kt = [key_text(k) for k in case["keys"]]
    used = [k for k in kt if k in exp["reac"] or k in exp["prod"]]
    no_checks = needs_no_checks(exp)
    p = case["param"]
    ctx.label(case["kind"], "param=" + ("None" if p is None else p["t"]))
    if p is not None and p["t"] == "float":
        ctx.label("digits=%d" % len(p["v"].split("e")[0]))
    ctx.label(*coef_labels(c for _, c in case["reac"] + case["prod"]))
    if any(k[:1] == "(" for k in used):
        ctx.label("key_starts_with_paren")
    if any(k[:1].isdigit() for k in used):
        ctx.label("digit_key")
        if any(kt[i][:1].isdigit() and c == "1" for i, c in case["reac"] + case["prod"]):
            ctx.label("digit_key:bare")
    if no_checks:
        ctx.label("checks=()")
    ctx.nontrivial(any(key_is_interesting(k) for k in used) and any(c != "1" for _, c in case["reac"] + case["prod"]))
    rxn, param = build_object(case, no_checks)
    judge_roundtrip(ctx, case, rxn, param, exp, no_checks, "roundtrip")
    cp = rxn.copy()
    if type(cp) is not type(rxn):
        ctx.fail("wrong_class:copy", got=type(cp).__name__)
    elif judge_stoich(ctx, cp, exp, "copy", str(rxn)) and judge_param(ctx, cp.param, param, "copy", str(rxn)):
        if not (cp == rxn) or not (rxn == cp) or (cp != rxn):
            ctx.fail("copy_not_equal", text=str(rxn))


# ---------------------------------------------------------------------------------------------
# systems
# ---------------------------------------------------------------------------------------------

_COMMENTS = ["# comment", "#", "# A -> B; 3", "   # indented; with = and ->", "#2 H2 + O2 -> 2 H2O"]
# the optional `comment_tokens` argument: single- and multi-character tokens, none of which can begin a reaction line
_TOKENS = ["#", "//", "--", "%%", "!", "REM", ";;", "/*"]   # no token ends in a blank: lines are stripped before the test, so a bare 'REM ' line would not match (contrived, not judged)
_COMMENT_BODIES = ["", " comment", " A -> B; 3", "; with = and ->", "2 H2 + O2 -> 2 H2O", " X = Y; 1e-3", "#"]

# balanced real reactions (hand-checked): used with chempy's *default* checks (balance, duplicates, keys)
POOL = [
    {"reac": [["H2", "2"], ["O2", "1"]], "prod": [["H2O", "2"]], "param": "3"},
    {"reac": [["H2O", "1"]], "prod": [["H+", "1"], ["OH-", "1"]], "param": "1e-4"},
    {"reac": [["H+", "1"], ["OH-", "1"]], "prod": [["H2O", "1"]], "param": "1.4e11"},
    {"reac": [["(NH4)2SO4(s)", "1"]], "prod": [["NH4+", "2"], ["SO4-2", "1"]], "param": "0.5"},
    {"reac": [["NH4+", "1"]], "prod": [["NH3", "1"], ["H+", "1"]], "param": None},
    {"reac": [["Fe+3", "1"], ["SCN-", "1"]], "prod": [["FeSCN+2", "1"]], "param": "890"},
    {"reac": [["[Fe(CN)6]-3", "1"], ["e-", "1"]], "prod": [["[Fe(CN)6]-4", "1"]], "param": "42"},
    {"reac": [["CuSO4..5H2O(s)", "1"]], "prod": [["Cu+2", "1"], ["SO4-2", "1"], ["H2O", "5"]], "param": "2.5e-3"},
    {"reac": [["HNO2", "2"]], "prod": [["H2O", "1"], ["NO", "1"], ["NO2", "1"]], "param": "3"},
    {"reac": [["NO2", "2"]], "prod": [["N2O4", "1"]], "param": "4"},
    {"reac": [["CO2(g)", "1"]], "prod": [["CO2(aq)", "1"]], "param": "3.3e-4"},
    {"reac": [["(CH3)3COH", "1"], ["H+", "1"]], "prod": [["(CH3)3C+", "1"], ["H2O", "1"]], "param": "1e-2"},
]


@st.composite
def system_cases(draw):
    if draw(st.integers(0, 9)) >= 7:
        idx = draw(st.lists(st.integers(0, len(POOL) - 1), min_size=1, max_size=6, unique=True))
        rx = []
        for i in idx:
            e = POOL[i]
            ks = [k for k, _ in e["reac"] + e["prod"]]
            rx.append({"kind": "Reaction", "keys": [{"name": k} for k in ks],
                       "reac": [{"k": j, "c": "" if c == "1" else c, "star": False, "inactive": False}
                                for j, (k, c) in enumerate(e["reac"])],
                       "prod": [{"k": len(e["reac"]) + j, "c": "" if c == "1" else c, "star": False, "inactive": False}
                                for j, (k, c) in enumerate(e["prod"])],
                       "param": e["param"], "kw": {}, "semi": "; ", "trail": False})
        mode = "pool"
        factory = "formula"
    else:
        factory = draw(st.sampled_from(["formula", "plain"]))
        pool = draw(key_pool(6, formula_only=(factory == "formula")))
        rx = [draw(lines(kinds=("Reaction",), pool=pool, allow_decimal=False))
              for _ in range(draw(st.integers(1, 6)))]
        mode = "free"
    tokens = None
    if draw(st.integers(0, 9)) >= 6:
        tokens = draw(st.lists(st.sampled_from(_TOKENS), min_size=1, max_size=3, unique=True))
    layout = []
    for _ in rx:
        pre = []
        for _ in range(draw(st.integers(0, 2)) if draw(st.integers(0, 9)) >= (6 if tokens is None else 3) else 0):
            if tokens is None:
                pre.append(draw(st.sampled_from(_COMMENTS + ["", "   "])))
            elif draw(st.integers(0, 9)) == 0:
                pre.append(draw(st.sampled_from(["", "   "])))
            else:       # token (any of the given ones) + body, plain or indented
                pre.append(draw(st.sampled_from(["", "", "   ", "\t"])) + draw(st.sampled_from(tokens))
                           + draw(st.sampled_from(_COMMENT_BODIES)))
        layout.append({"pre": pre, "indent": draw(st.sampled_from([0, 0, 0, 1, 4])),
                       "trail_ws": draw(st.sampled_from([0, 0, 2]))})
    s = draw(st.integers(0, 9))
    subst = "none" if s < 5 else ("given" if s < 8 else "missing")
    return {"mode": mode, "factory": factory, "rxns": rx, "layout": layout, "final_newline": draw(st.booleans()),
            "subst": subst, "perm": draw(st.integers(0, 10 ** 6)), "j": draw(st.integers(0, 11)),
            "comment_tokens": tokens, "tokens_as": draw(st.sampled_from(["tuple", "list"]))}


def _permuted(lst, seed):
    """deterministic permutation from an integer (Lehmer code)"""
    lst = list(lst)
    out = []
    while lst:
        seed, r = divmod(seed, len(lst))
        out.append(lst.pop(r))
    return out


def system_text(case):
    out = []
    for rx, lay in zip(case["rxns"], case["layout"]):
        out.extend(lay["pre"])
        out.append(" " * lay["indent"] + line_text(rx) + " " * lay["trail_ws"])
    return "\n".join(out) + ("\n" if case["final_newline"] else "")


def check_system(case, ctx):
    from chempy import ReactionSystem, Substance, Reaction
    text = system_text(case)
    exps = [expected_of(rx) for rx in case["rxns"]]
    union = []
    for e in exps:
        for n in ("reac", "prod", "inact_reac", "inact_prod"):
            for k in e[n]:
                if k not in union:
                    union.append(k)
    ctx.label("mode=" + case["mode"], "factory=" + case["factory"], "subst=" + case["subst"],
              "nrxn=%d" % len(case["rxns"]))
    if any(lay["pre"] for lay in case["layout"]):
        ctx.label("comments_or_blank")
    if any(lay["indent"] for lay in case["layout"]):
        ctx.label("indented")
    if any(k[:1].isdigit() for k in union):
        ctx.label("digit_key")
    tokens = case.get("comment_tokens")
    ctx.label("comment_tokens=" + ("default" if tokens is None else "%d%s" % (
        len(tokens), ":multichar" if any(len(t) > 1 for t in tokens) else "")))
    ctx.nontrivial(len(case["rxns"]) >= 2 and any(key_is_interesting(k) for k in union))
    kw = {}
    if case["mode"] != "pool":
        kw["checks"] = ()
        if any(needs_no_checks(e) for e in exps):
            kw["rxn_parse_kwargs"] = {"checks": ()}
        if case["factory"] == "plain":
            kw["substance_factory"] = Substance
    substances = None
    missing = None
    if case["subst"] != "none" and union:
        substances = _permuted(union, case["perm"])
        if case["subst"] == "missing":
            missing = union[case["j"] % len(union)]
            substances = [k for k in substances if k != missing]
    if tokens is not None:
        kw["comment_tokens"] = tuple(tokens) if case.get("tokens_as") == "tuple" else list(tokens)
    rs = sut(ReactionSystem.from_string, text, substances, **kw)
    if missing is not None:
        ctx.label("expect_rejection")
        if not is_err(rs):
            ctx.fail("unknown_key_accepted:system", text=text, substances=substances, missing=missing)
        return
    if is_err(rs):
        ctx.fail("valid_system_rejected", text=text, substances=substances, error=repr(rs))
        return
    if len(rs.rxns) != len(exps):
        ctx.fail("number_of_reactions", text=text, got=len(rs.rxns), expected=len(exps))
        return
    for i, (r, e) in enumerate(zip(rs.rxns, exps)):
        if type(r) is not Reaction:
            ctx.fail("wrong_class:system", text=text, index=i, got=type(r).__name__)
            return
        if not judge_stoich(ctx, r, e, "system", text):
            return
        judge_param(ctx, r.param, e["param"], "system", text)
        if r.name != e["name"] or r.ref != e["ref"]:
            ctx.fail("keyword:system", text=text, index=i, got=[repr(r.name), repr(r.ref)])
    want_order = sorted(union) if substances is None else substances
    if list(rs.substances.keys()) != want_order:
        ctx.fail("substance_order:system", text=text, got=list(rs.substances.keys()), expected=want_order)


@st.composite
def system_rt_cases(draw):
    factory = draw(st.sampled_from(["formula", "plain"]))
    pool = draw(key_pool(6, formula_only=(factory == "formula")))
    rx = [draw(objects(kinds=("Reaction",), pool=pool)) for _ in range(draw(st.integers(1, 6)))]
    s = draw(st.integers(0, 9))
    return {"factory": factory, "rxns": rx, "subst": "none" if s < 5 else "given", "perm": draw(st.integers(0, 10 ** 6))}


def check_system_roundtrip(case, ctx):
    from chempy import ReactionSystem, Substance
    exps = [object_expectation(rx) for rx in case["rxns"]]
    union = []
    for e in exps:
        for n in ("reac", "prod"):
            for k in e[n]:
                if k not in union:
                    union.append(k)
    no_checks = any(needs_no_checks(e) for e in exps)
    built = [build_object(rx, True) for rx in case["rxns"]]
    ctx.label("factory=" + case["factory"], "subst=" + case["subst"], "nrxn=%d" % len(built))
    if any(k[:1].isdigit() for k in union):
        ctx.label("digit_key")
    ctx.label(*coef_labels(c for rx in case["rxns"] for _, c in rx["reac"] + rx["prod"]))
    if no_checks:
        ctx.label("rxn_parse_kwargs:checks=()")
    ctx.nontrivial(len(built) >= 2 and any(key_is_interesting(k) for k in union))
    kw = {"checks": ()}
    if case["factory"] == "plain":
        kw["substance_factory"] = Substance
    else:
        kw["substance_factory"] = Substance.from_formula
    substances = None
    if case["subst"] == "given" and union:
        substances = _permuted(union, case["perm"])
    rs0 = ReactionSystem([r for r, _ in built], substances, **kw)
    text = rs0.string()
    if no_checks:
        kw["rxn_parse_kwargs"] = {"checks": ()}
    back = sut(ReactionSystem.from_string, text, substances, **kw)
    if is_err(back):
        ctx.fail("printed_system_rejected", text=text, substances=substances, error=repr(back))
        return
    if len(back.rxns) != len(built):
        ctx.fail("number_of_reactions:system_roundtrip", text=text, got=len(back.rxns), expected=len(built))
        return
    all_exact = True
    for i, (r, (r0, param), e) in enumerate(zip(back.rxns, built, exps)):
        want_param, exact = printed_param(param)
        all_exact = all_exact and exact
        if not judge_stoich(ctx, r, e, "system_roundtrip", text):
            return
        if not judge_param(ctx, r.param, want_param, "system_roundtrip", text):
            return
    want_order = sorted(union) if substances is None else substances
    if list(back.substances.keys()) != want_order:
        ctx.fail("substance_order:system_roundtrip", text=text, got=list(back.substances.keys()), expected=want_order)
        return
    if all_exact and (not (back == rs0) or not (rs0 == back)):
        ctx.fail("roundtrip_not_equal:system", text=text)


# ---------------------------------------------------------------------------------------------
# copy of an object whose sides were given in a chosen order (OrderedDict)
# ---------------------------------------------------------------------------------------------

_SIDES = ("reac", "prod", "inact_reac", "inact_prod")


@st.composite
def copy_cases(draw):
    """sides as lists of [key index, coefficient] in *arbitrary* key order, each handed to the constructor as an
    OrderedDict (kept as given) or a plain dict (stored sorted); inactive parts in 40 % of the cases."""
    pool = draw(key_pool(6))
    if len(pool) == 1:
        pool = pool + [{"name": "Q9"}]        # at least two keys, so that a side can be out of order
    n = len(pool)
    case = {"kind": draw(st.sampled_from(["Reaction", "Equilibrium"])), "keys": pool, "param": _rt_param(draw)}
    with_inactive = draw(st.integers(0, 9)) >= 6
    for name in _SIDES:
        if name.startswith("inact_") and not (with_inactive and draw(st.integers(0, 3)) > 0):
            case[name] = []
        else:
            nt = min(n, draw(st.sampled_from([2, 1, 2, 3, 4])))
            idx = draw(st.lists(st.integers(0, n - 1), min_size=nt, max_size=nt, unique=True))
            case[name] = [[i, draw(_coef())] for i in idx]
        case[name + "_as"] = draw(st.sampled_from(["odict", "odict", "odict", "dict"]))
    k = draw(st.integers(0, 9))
    case["name"] = draw(st.sampled_from(_NAMES)) if k >= 7 else None
    case["ref"] = draw(st.sampled_from(_REFS)) if k >= 8 else None
    case["data"] = {"T": draw(st.integers(200, 400))} if draw(st.integers(0, 9)) >= 7 else None
    return case


def check_copy(case, ctx):
    """'a copy compares equal to its original' for objects with explicitly ordered sides.  The print->parse round
    trip of such objects is not judged here (from_string always stores sorted sides)."""
    import chempy
    from collections import OrderedDict
    Cls = getattr(chempy, case["kind"])
    kt = [key_text(k) for k in case["keys"]]
    exp = {name: {kt[i]: Fraction(_num(c)) for i, c in case[name]} for name in _SIDES}
    # order in which each side is stored: as given (OrderedDict) / sorted by key (plain dict)
    order = {name: ([kt[i] for i, _ in case[name]] if case[name + "_as"] == "odict" else sorted(exp[name]))
             for name in _SIDES}
    unsorted = [name for name in _SIDES if order[name] != sorted(order[name])]
    ctx.label(case["kind"], "unsorted_sides=%d" % len(unsorted))
    if any(name.startswith("inact_") for name in unsorted):
        ctx.label("unsorted_inactive_side")
    if case["inact_reac"] or case["inact_prod"]:
        ctx.label("inactive")
    if case["data"]:
        ctx.label("data")
    ctx.nontrivial(bool(unsorted))
    p = case["param"]
    param = None if p is None else (int(p["v"]) if p["t"] == "int" else float(p["v"]))
    args = {}
    for name in _SIDES:
        items = [(kt[i], _num(c)) for i, c in case[name]]
        args[name] = OrderedDict(items) if case[name + "_as"] == "odict" else dict(items)
    rxn = Cls(args["reac"], args["prod"], param, args["inact_reac"] or None, args["inact_prod"] or None,
              name=case["name"], ref=case["ref"], data=dict(case["data"]) if case["data"] else None, checks=())
    text = str(rxn)
    cp = rxn.copy()
    if type(cp) is not Cls:
        ctx.fail("wrong_class:copy", text=text, got=type(cp).__name__)
        return
    ok = judge_stoich(ctx, cp, exp, "copy", text) and judge_param(ctx, cp.param, param, "copy", text)
    if not ok:
        return
    for name in _SIDES:
        got, orig = list(getattr(cp, name).keys()), list(getattr(rxn, name).keys())
        if got != orig:
            ctx.fail("key_order:copy", text=text, side=name, copy=got, original=orig, given=order[name])
            ok = False
            break
    if cp.name != case["name"] or cp.ref != case["ref"] or cp.data != (case["data"] or {}):
        ctx.fail("keyword:copy", text=text, got=[repr(cp.name), repr(cp.ref), repr(cp.data)[:100]],
                 expected=[case["name"], case["ref"], case["data"] or {}])
        ok = False
    if not (cp == rxn) or not (rxn == cp) or (cp != rxn) or (rxn != cp):
        ctx.fail("copy_not_equal", text=text, copy_text=str(cp))
        ok = False
    if str(cp) != text:
        ctx.fail("printed_text:copy", text=text, copy_text=str(cp))
        ok = False
    if not ok:
        return
    # the copy owns its containers: changing them leaves the original as described
    before = {name: list(getattr(rxn, name).items()) for name in _SIDES}
    for name in _SIDES:
        d = getattr(cp, name)
        d["Zz_new"] = 7
        for k in list(d)[:1]:
            if k != "Zz_new":
                del d[k]
    cp.data["changed"] = True
    after = {name: list(getattr(rxn, name).items()) for name in _SIDES}
    if after != before or not judge_stoich(ctx, rxn, exp, "original_after_changing_copy", text):
        ctx.fail("copy_shares_container", text=text,
                 sides=[name for name in _SIDES if after[name] != before[name]])
    if rxn.data != (case["data"] or {}):
        ctx.fail("copy_shares_data", text=text, got=repr(rxn.data)[:100])


SUBCHECKS = [
    SubCheck("parse", check_parse, strategy=parse_cases(), quick=3000, thorough=120000,
             rule="one Reaction/Equilibrium line: stoichiometry, inactive groups, parameter, name/ref, allowed-key list "
                  "(known keys accepted, one missing key rejected); copy of the parsed object"),
    SubCheck("roundtrip", check_roundtrip, strategy=objects(), quick=2000, thorough=80000,
             rule="constructed Reaction/Equilibrium -> str -> from_string compared with the description; copy"),
    SubCheck("system", check_system, strategy=system_cases(), quick=600, thorough=20000,
             rule="ReactionSystem.from_string: 1-6 lines + comments/blank/indented lines; free keys with checks=() or "
                  "balanced pool reactions with the default checks; substance order; missing key rejected"),
    SubCheck("system_roundtrip", check_system_roundtrip, strategy=system_rt_cases(), quick=500, thorough=20000,
             rule="constructed ReactionSystem -> string() -> from_string: reactions, parameters, substance order, =="),
    SubCheck("copy", check_copy, strategy=copy_cases(), quick=800, thorough=30000,
             rule="Reaction/Equilibrium built from OrderedDict (given key order) or dict sides incl. inactive parts, "
                  "name/ref/data: copy() == original both ways, same key order of every side, same printed text, and "
                  "changing the copy's containers leaves the original unchanged"),
]

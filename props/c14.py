# -*- coding: utf-8 -*-
"""C14 - molar mass is the composition-weighted sum of standard atomic weights; the periodic table agrees with IUPAC."""
from fractions import Fraction

from hypothesis import strategies as st

from vlib import env  # noqa  (sys.path)
from vlib.harness import SubCheck, sut, is_err
from vlib import gen_formula as G
from vlib.refdata import ELEMENTS, SYMBOLS, NAMES, NAME_ALIASES, GROUPS

PROPERTY = "C14"
LEVEL = "exploration"
RULE = ("'table': all 118 elements (exhaustive) - symbol, IUPAC name, Z = index+1, relative_atomic_masses[Z-1] against "
        "vlib/refdata.py, atomic_number() of symbol and name in six case variants and its inverse, plus the groups/period "
        "tables and container lengths; 'lookup_unknown': strings that are not a symbol or name must not be mapped to an "
        "element.  'mass': G1 formula ASTs built by construction (C01 grammar), chempy sees the rendered text; the expected "
        "mass is summed with Fractions from the AST composition and the table column relative_atomic_masses (itself judged "
        "by 'table'), the electron term only has to lie in the stated interval.  'metamorphic': hydrate additivity, group "
        "scaling, ion-vs-neutral on formulas assembled from neutral G1 bodies.  'fractions': mixtures of 1-6 distinct G1 "
        "formulas with positive integer/float coefficients (dict) or unit multiplicity (set), a third of them with components "
        "of exactly equal coefficient*mass (same compound under two keys, X vs (X)n at n:1, allotropes at inverse ratio); "
        "'fractions_args': the same "
        "mixtures with the substances= mapping (permuted key order, unrelated extra entries, dict/OrderedDict, keys = "
        "formula or label) or a substance_factory=.  'shared_data': a short history - several substances created with "
        "one shared free-form data dict (or own / none), masses and mass fractions read repeatedly and in generated "
        "order, every value against the reference mass of its own formula.  Non-trivial = formula(s) "
        "with >= 3 distinct elements and a charge or a hydrate part (and >= 2 distinct formulas where several are "
        "involved); for 'table' every element; distinct by case digest.")
ASSUMPTIONS = [
    "vlib/refdata.py: own transcription of the IUPAC/CIAAW table (symbols, names, abridged standard atomic weights 2013/2015, "
    "mass number of the longest-lived isotope where no standard weight exists, main-group columns)",
    "standard weights are compared with relative tolerance 2e-4 (absorbs the CIAAW 2013-2021 revisions), mass numbers +-4",
    "electron mass in u: any constant within 1e-6 of 5.4858e-4 is accepted (the code's 5.489e-4 is inside)",
    "the formula parser is trusted only as far as C01 checks it: a wrong composition also shows up here",
    "a data record with an explicit 'mass' entry (documented override of the computed mass) is outside the statement "
    "and not generated; whether reading a mass leaves the caller's data dict untouched is not judged, only the values read",
    "with substances= the keys of the mixture are whatever the mapping is keyed by (formula text or a label): the mass "
    "is that of the mapped substance",
]

# -- tolerances ------------------------------------------------------------------------------------------------
REL_WEIGHT = 2e-4          # |w_repo - w_ref| <= REL_WEIGHT * w_ref: CIAAW revisions 2013..2021 move Ar by 5e-5, Hf by 2.2e-5
MASSNO_SLACK = 4           # elements without standard weight: integer within +-4 of the reference mass number
ME_REF = Fraction(54858, 10 ** 8)      # 5.4858e-4 u (CODATA 5.48579909e-4)
ME_TOL = Fraction(1, 10 ** 6)          # stated tolerance on the electron mass constant
ME_LO, ME_HI = ME_REF - ME_TOL, ME_REF + ME_TOL
# float summation: chempy adds <= ~100 products count*weight in double precision; each product/sum has relative error
# <= 2**-53, decimal subscripts are themselves products of parsed floats (<= 9 nested multipliers).  A bound of
# 1e-12 * sum(|count*weight|) is > 1000 ulp of the largest partial sum and still 7 orders below one electron mass in
# a molecule of 100 u.
REL_SUM = Fraction(1, 10 ** 12)

PERIOD_LENGTHS = (2, 8, 8, 18, 18, 32, 32)
ACCUM = (2, 10, 18, 36, 54, 86, 118)


def _periodic():
    from chempy.util import periodic
    return periodic


def _from_formula():
    from chempy import Substance
    return Substance.from_formula


# ---------------------------------------------------------------------------------------------------------------
# table
# ---------------------------------------------------------------------------------------------------------------

def _case_variants(s):
    """Lower, upper, as written, swapped, first-lower-rest-upper, alternating: deterministic 'mixed case' spellings."""
    alt = "".join(c.upper() if i % 2 else c.lower() for i, c in enumerate(s))
    out = [s, s.lower(), s.upper(), s.swapcase(), s[:1].lower() + s[1:].upper(), alt]
    seen = []
    for v in out:
        if v not in seen:
            seen.append(v)
    return seen


def enum_table(tier):
    yield {"kind": "shape"}
    yield {"kind": "groups"}
    for z in range(1, 119):
        yield {"kind": "element", "Z": z}


def check_table(case, ctx):
    P = _periodic()
    ctx.label(case["kind"])
    ctx.nontrivial(True)
    if case["kind"] == "shape":
        for attr in ("symbols", "names", "lower_names", "relative_atomic_masses"):
            n = len(getattr(P, attr))
            ctx.require(n == 118, "table_length", attr=attr, got=n)
        ctx.require(len(set(P.symbols)) == len(P.symbols), "symbols_not_unique")
        ctx.require(tuple(P.period_lengths) == PERIOD_LENGTHS, "period_lengths", got=list(P.period_lengths))
        ctx.require(tuple(P.accum_period_lengths) == ACCUM, "accum_period_lengths", got=list(P.accum_period_lengths))
        return
    if case["kind"] == "groups":
        got = {int(k): tuple(int(x) for x in v) for k, v in P.groups.items()}
        ctx.require(sorted(got) == sorted(GROUPS), "group_keys", got=sorted(got), expected=sorted(GROUPS))
        for g in sorted(GROUPS):
            if g in got:
                ctx.require(got[g] == tuple(GROUPS[g]), "group_members", group=g, got=list(got[g]), expected=list(GROUPS[g]))
        return
    z = case["Z"]
    _, sym, name, weight, massno = ELEMENTS[z - 1]
    ctx.label("standard_weight" if weight is not None else "mass_number")
    if len(P.symbols) < z or len(P.names) < z or len(P.relative_atomic_masses) < z:
        ctx.fail("table_length", Z=z)
        return
    # symbol, name, Z = index + 1
    ctx.require(P.symbols[z - 1] == sym, "symbol", Z=z, got=P.symbols[z - 1], expected=sym)
    ok_names = (name,) + tuple(NAME_ALIASES.get(name, ()))
    ctx.require(P.names[z - 1] in ok_names, "name", Z=z, got=P.names[z - 1], expected=list(ok_names))
    # weight
    w = P.relative_atomic_masses[z - 1]
    if isinstance(w, bool) or not isinstance(w, (int, float)):
        ctx.fail("weight_type", Z=z, got=repr(w))
    elif weight is not None:
        # REL_WEIGHT: see top of the module
        ctx.require(abs(w - weight) <= REL_WEIGHT * weight, "standard_atomic_weight", Z=z, symbol=sym, got=w, reference=weight)
    else:
        ctx.require(float(w) == int(w) and abs(int(w) - massno) <= MASSNO_SLACK, "mass_number", Z=z, symbol=sym,
                    got=w, reference=massno)
    # lookup: case-insensitive, inverse of the table
    import chempy
    for fn_name, fn in (("periodic.atomic_number", P.atomic_number), ("chempy.atomic_number", chempy.atomic_number)):
        for what, key in (("symbol", sym), ("name", name)):
            for v in _case_variants(key):
                got = sut(fn, v)
                if is_err(got):
                    ctx.fail("lookup_raises:" + what, fn=fn_name, arg=v, error=repr(got))
                    continue
                if isinstance(got, bool) or not isinstance(got, int) or got != z:
                    ctx.fail("lookup_value:" + what, fn=fn_name, arg=v, got=repr(got), expected=z)
        # the table entry itself (whatever spelling the repository uses) maps back to its index
        for what, seq in (("symbol", P.symbols), ("name", P.names)):
            got = sut(fn, seq[z - 1])
            if is_err(got) or got != z:
                ctx.fail("lookup_not_inverse:" + what, fn=fn_name, arg=seq[z - 1], got=repr(got), expected=z)


# ---------------------------------------------------------------------------------------------------------------
# unknown names
# ---------------------------------------------------------------------------------------------------------------

_LOW_SYMS = set(s.lower() for s in SYMBOLS)
_LOW_NAMES = set(n.lower() for n in NAMES) | set(a.lower() for v in NAME_ALIASES.values() for a in v)


@st.composite
def unknown_names(draw):
    k = draw(st.integers(0, 3))
    if k == 0:
        s = draw(st.sampled_from(G.NON_SYMBOLS))
    elif k == 1:       # element name with one letter appended / removed / doubled
        n = draw(st.sampled_from(NAMES))
        m = draw(st.integers(0, 2))
        s = n + draw(st.sampled_from("xqzs")) if m == 0 else (n[:-1] if m == 1 else n[0] + n)
    elif k == 2:       # symbol + lower-case letter, or two symbols glued
        s = draw(st.sampled_from(SYMBOLS)) + draw(st.sampled_from(["x", "q", "j"] + SYMBOLS[:30]))
    else:
        s = draw(st.sampled_from(["unobtainium", "Deuterium", "Xx", "Uuo", "ununseptium", "Wolfram", "Natrium",
                                  "hydrogen ", " H", "H2", "Fe+", "carbon dioxide"]))
    v = draw(st.integers(0, 2))
    s = s if v == 0 else (s.lower() if v == 1 else s.upper())
    return {"name": s}


def check_unknown(case, ctx):
    P = _periodic()
    s = case["name"]
    if s.lower() in _LOW_SYMS or s.lower() in _LOW_NAMES:
        ctx.label("is_known")      # the perturbation produced another element (e.g. 'H'+'e'): nothing to judge
        return
    ctx.label("unknown")
    ctx.nontrivial(True)
    got = sut(P.atomic_number, s)
    if is_err(got):
        ctx.label("raises:" + got.type)
        return
    # a value was returned: then the table entry at that index has to be the argument (inverse), which it is not
    ctx.fail("unknown_name_mapped_to_element", arg=s, got=repr(got))


# ---------------------------------------------------------------------------------------------------------------
# mass of a formula
# ---------------------------------------------------------------------------------------------------------------

def ref_mass_parts(comp, ram):
    """comp {Z: Fraction} (key 0 = charge) -> (sum count*weight without electrons, sum |count*weight|, charge)."""
    base = Fraction(0)
    asum = Fraction(0)
    for z, c in comp.items():
        if z == 0:
            continue
        t = c * Fraction(ram[z - 1])
        base += t
        asum += abs(t)
    return base, asum, comp.get(0, Fraction(0))


def mass_window(comp, ram):
    """Closed interval of acceptable masses for a composition (electron constant anywhere in [ME_LO, ME_HI])."""
    base, asum, z = ref_mass_parts(comp, ram)
    tol = REL_SUM * (asum + abs(z) * ME_HI)
    a, b = base - z * ME_LO, base - z * ME_HI
    return min(a, b) - tol, max(a, b) + tol


def _is_real(x):
    return isinstance(x, (int, float)) and not isinstance(x, bool) and x == x and abs(x) != float("inf")


def _nontrivial(s):
    return s["nelements"] >= 3 and bool(s["charge"] or s["hydrate"])


def check_mass(case, ctx):
    P = _periodic()
    from_formula = _from_formula()
    txt = G.text(case)
    lbls, s = G.labels(case)
    ctx.label(*lbls)
    ctx.nontrivial(_nontrivial(s))
    sub = sut(from_formula, txt)
    if is_err(sub):
        # whether a formula of the grammar is accepted is C01's clause; here there is no mass to judge
        ctx.fail("from_formula_raises", text=txt, error=repr(sub))
        return
    m = sub.mass
    if not _is_real(m):
        ctx.fail("mass_not_a_finite_number", text=txt, got=repr(m))
        return
    ram = P.relative_atomic_masses
    lo, hi = mass_window(G.composition(case), ram)
    _, asum, z = ref_mass_parts(G.composition(case), ram)
    if z != 0:
        # is the electron term visible above the float-summation allowance? (else the clause is vacuous for this case)
        ctx.label("electron_term_resolved" if 100 * REL_SUM * asum < abs(z) * ME_LO else "electron_term_below_float_noise")
    if not (lo <= Fraction(m) <= hi):
        ctx.fail("mass_vs_formula", text=txt, got=m, lo=float(lo), hi=float(hi))
    # the statement literally: sum over *its* composition
    comp = sub.composition
    if isinstance(comp, dict) and all(isinstance(k, int) and _is_real(v) for k, v in comp.items()) \
            and all(0 <= k <= len(ram) for k in comp):
        lo2, hi2 = mass_window({k: Fraction(v) for k, v in comp.items()}, ram)
        if not (lo2 <= Fraction(m) <= hi2):
            ctx.fail("mass_vs_own_composition", text=txt, got=m, lo=float(lo2), hi=float(hi2))
    # molar_mass() is the same number in g/mol
    mm = sub.molar_mass()
    import quantities as pq
    val = float(mm.rescale(pq.g / pq.mol).magnitude)
    # one float multiplication by 1.0 g/mol; 1e-12 relative leaves room for a rescale through kg/mol
    if abs(val - m) > 1e-12 * abs(m):
        ctx.fail("molar_mass_differs_from_mass", text=txt, mass=m, molar_mass=val)


# ---------------------------------------------------------------------------------------------------------------
# metamorphic relations
# ---------------------------------------------------------------------------------------------------------------

def _neutral(f, keep_parts=True):
    return {"prefix": "", "parts": f["parts"] if keep_parts else f["parts"][:1], "hyd": f["hyd"], "charge": None,
            "suffix": "", "electron": False}


@st.composite
def metamorphic_cases(draw):
    a = _neutral(draw(G.formulas(max_depth=3, max_terms=4, max_hydrates=2, allow_electron=False)))
    b = _neutral(draw(G.formulas(max_depth=2, max_terms=3, allow_electron=False)), keep_parts=False)
    n = draw(st.sampled_from([1, 2, 3, 5, 6, 7, 10, 12])) if draw(st.booleans()) else draw(st.integers(1, 12))
    k = draw(st.integers(0, 9))
    mult = str(draw(st.integers(2, 20))) if k < 7 else (str(draw(st.integers(21, 3000))) if k < 9 else
                                                       "%d.%d" % (draw(st.integers(0, 9)), draw(st.integers(1, 99))))
    br = draw(st.sampled_from(["(", "(", "[", "{"]))
    z1 = draw(st.sampled_from([1, -1, 2, -2, 3, -3, 4, -4])) if draw(st.integers(0, 9)) < 8 else \
        draw(st.integers(1, 12)) * draw(st.sampled_from([1, -1]))
    z2 = draw(st.integers(1, 12)) * draw(st.sampled_from([1, -1]))
    suffix = draw(st.sampled_from(["", "", "(aq)", "(s)", "(g)", "(l)"]))
    return {"a": a, "b": b, "n": n, "mult": mult, "br": br, "z1": z1, "z2": z2, "explicit1": draw(st.booleans()),
            "suffix": suffix}


def _charged(f, z, explicit1, suffix):
    g = dict(f)
    g["charge"] = {"sign": "+" if z > 0 else "-", "mag": abs(z), "explicit1": bool(explicit1 and abs(z) == 1)}
    g["suffix"] = suffix
    return g


def check_metamorphic(case, ctx):
    P = _periodic()
    from_formula = _from_formula()
    ram = P.relative_atomic_masses
    a, b = case["a"], case["b"]
    sa, sb = G.stats(a), G.stats(b)
    ctx.label("a_hydrate" if sa["hydrate"] else "a_single", "a_depth=%d" % min(sa["depth"], 4),
              "mult_decimal" if "." in case["mult"] else "mult_int")
    nel = len(set(G.composition(a)) | set(G.composition(b)))
    ctx.nontrivial(nel >= 3)

    def mass_of(f, what):
        t = G.text(f)
        sub = sut(from_formula, t)
        if is_err(sub):
            ctx.fail("from_formula_raises", text=t, role=what, error=repr(sub))
            return None, t, None
        m = sub.mass
        if not _is_real(m):
            ctx.fail("mass_not_a_finite_number", text=t, got=repr(m))
            return None, t, None
        _, asum, _ = ref_mass_parts(G.composition(f), ram)
        return Fraction(m), t, asum

    ma, ta, asum_a = mass_of(a, "a")
    mb, tb, asum_b = mass_of(b, "b")
    if ma is None or mb is None:
        return
    n = case["n"]
    # 1. additivity over hydrate parts: mass(A..nB) = mass(A) + n*mass(B)
    ab = dict(a)
    ab["parts"] = list(a["parts"]) + [{"n": n, "terms": b["parts"][0]["terms"]}]
    mab, tab, asum_ab = mass_of(ab, "a..nb")
    if mab is not None:
        # three float sums over positive terms, each within REL_SUM of the exact value of its own sum of |terms|
        tol = REL_SUM * (asum_ab + asum_a + n * asum_b)
        if abs(mab - (ma + n * mb)) > tol:
            ctx.fail("hydrate_additivity", whole=tab, a=ta, b=tb, n=n, got=float(mab), expected=float(ma + n * mb))
    # 2. scaling with a group multiplier: mass((A)k) = k*mass(A)   (A single part)
    a1 = _neutral(a, keep_parts=False)
    ma1, ta1, asum_a1 = mass_of(a1, "a1")
    k = Fraction(case["mult"])
    grp = dict(a1)
    grp["parts"] = [{"n": 1, "terms": [{"br": case["br"], "terms": a1["parts"][0]["terms"], "count": case["mult"], "primes": ""}]}]
    mg, tg, asum_g = mass_of(grp, "(a)k")
    if ma1 is not None and mg is not None:
        tol = REL_SUM * (asum_g + k * asum_a1)
        if abs(mg - k * ma1) > tol:
            ctx.fail("group_scaling", whole=tg, inner=ta1, k=case["mult"], got=float(mg), expected=float(k * ma1))
    # 3. ion vs neutral parent: mass(A^z) - mass(A) = -z*m_e, the same m_e for every z
    d = {}
    for key in ("z1", "z2"):
        z = case[key]
        ion = _charged(a, z, case["explicit1"], case["suffix"])
        mi, ti, _ = mass_of(ion, "ion")
        if mi is None:
            return
        diff = mi - ma
        # difference of two float sums of size ~asum_a: absolute error <= 2*REL_SUM*asum_a (cancellation), plus the
        # stated 1e-6 u per electron on the constant
        tol = 2 * REL_SUM * (asum_a + abs(z) * ME_HI)
        lo, hi = sorted((-z * ME_LO, -z * ME_HI))
        if not (lo - tol <= diff <= hi + tol):
            ctx.fail("ion_minus_neutral", ion=ti, neutral=ta, z=z, got=float(diff), expected=float(-z * ME_REF))
        d[key] = (diff, tol)
    # same constant: diff1/z1 == diff2/z2  <=>  diff1*z2 == diff2*z1
    (d1, t1), (d2, t2) = d["z1"], d["z2"]
    if abs(d1 * case["z2"] - d2 * case["z1"]) > t1 * abs(case["z2"]) + t2 * abs(case["z1"]):
        ctx.fail("electron_constant_not_unique", neutral=ta, z1=case["z1"], z2=case["z2"], d1=float(d1), d2=float(d2))


# ---------------------------------------------------------------------------------------------------------------
# mass fractions
# ---------------------------------------------------------------------------------------------------------------

@st.composite
def call_variants(draw, n):
    """How mass_fractions(stoichiometries, substances=None, substance_factory=Substance.from_formula) is called."""
    how = draw(st.sampled_from(["substances", "substances", "factory"]))
    if how == "substances":
        n_extra = draw(st.integers(0, 3))
        return {"how": "substances",
                # unrelated substances that are in the mapping but not in the mixture (a shared registry)
                "extras": [draw(G.formulas(max_depth=2, max_terms=3)) for _ in range(n_extra)],
                # position of each entry (mixture keys first, then extras) in the mapping: stable sort by these
                # priorities; all 0 = the order of the stoichiometry
                "order": [draw(st.integers(0, 9)) for _ in range(n + n_extra)],
                "container": draw(st.sampled_from(["dict", "OrderedDict"])),
                "stoich_container": draw(st.sampled_from(["dict", "OrderedDict"])),
                "keys": draw(st.sampled_from(["formula", "formula", "alias"])),
                "cls": draw(st.sampled_from(["Substance", "Substance", "Species"])),
                "positional": draw(st.booleans())}
    factory = draw(st.sampled_from(["Substance.from_formula", "Species.from_formula", "wrapper", "table_lookup"]))
    return {"how": "factory", "factory": factory,
            "stoich_container": draw(st.sampled_from(["dict", "OrderedDict"])),
            "keys": draw(st.sampled_from(["formula", "alias"])) if factory == "table_lookup" else "formula",
            "cls": draw(st.sampled_from(["Substance", "Species"])) if factory == "table_lookup" else "Substance",
            "positional": draw(st.booleans())}


def _variant(draw, f):
    """The same compound under another key: suffix, prefix, primes or hydrate separator changed - composition untouched."""
    import copy
    g = copy.deepcopy(f)
    ways = ["suffix"]
    if not f.get("electron"):
        ways += ["prefix", "primes"]
        if len(f["parts"]) > 1:
            ways.append("hyd")
    how = draw(st.sampled_from(ways))
    if how == "suffix":
        g["suffix"] = draw(st.sampled_from([x for x in ("(l)", "(g)", "(s)", "(aq)", "") if x != f["suffix"]]))
    elif how == "prefix":
        g["prefix"] = draw(st.sampled_from([x for x in (".", "alpha-", "beta-", "") if x != f["prefix"]]))
    elif how == "primes":
        last = g["parts"][0]["terms"][-1]
        last["primes"] = draw(st.sampled_from([x for x in ("*", "'", "**", "") if x != last["primes"]]))
    else:
        g["hyd"] = u"\u00b7" if f["hyd"] == ".." else ".."
    return g


def _add_twins(draw, kind, items):
    """Components whose coefficient*mass is *exactly* that of another component (or whose mass is): the same compound
    under a second key, a species next to its n-fold multiple (X)n in proportion n:1, two allotropes E_a, E_b in
    proportion b:a.  Appended to / substituted in `items`; the case stays a plain list of formulas and coefficients."""
    how = draw(st.sampled_from(["variant", "multiple", "allotropes"] if kind != "set" else ["variant"]))
    i = draw(st.integers(0, len(items) - 1))
    it = items[i]
    if how == "multiple" and it["f"].get("electron"):
        how = "variant"                     # the bare electron has no body to put in brackets
    if how == "variant":
        c = it["c"]
        if kind != "set" and draw(st.integers(0, 3)) == 3:      # equal mass, another amount
            c = draw(st.integers(1, 20)) if kind == "dict_int" else draw(st.integers(1, 40)) / 2.0
        items.append({"f": _variant(draw, it["f"]), "c": c})
        if draw(st.integers(0, 3)) == 3:                       # a third key for the same compound
            items.append({"f": _variant(draw, it["f"]), "c": it["c"]})
    elif how == "multiple":
        n = draw(st.sampled_from([2, 2, 4, 3, 8, 5, 6, 12]))
        base = _neutral(it["f"], keep_parts=False)
        br = draw(st.sampled_from(["(", "(", "[", "{"]))
        grp = dict(base)
        grp["parts"] = [{"n": 1, "terms": [{"br": br, "terms": base["parts"][0]["terms"], "count": str(n), "primes": ""}]}]
        c = draw(st.integers(1, 20)) if kind == "dict_int" else draw(st.integers(1, 40)) / 2.0
        items[i] = {"f": base, "c": c * n}
        items.append({"f": grp, "c": c})
    else:
        el = draw(st.sampled_from(["O", "S", "P", "C", "N", "H"])) if draw(st.booleans()) else draw(st.sampled_from(SYMBOLS))
        a = draw(st.integers(1, 8))
        b = draw(st.integers(1, 7))
        b = b if b < a else b + 1                               # b != a
        k = draw(st.integers(1, 5)) if kind == "dict_int" else draw(st.integers(1, 10)) / 2.0
        mk = lambda m: {"prefix": "", "parts": [{"n": 1, "terms": [{"el": el, "count": "" if m == 1 else str(m), "primes": ""}]}],   # noqa: E731
                        "hyd": "..", "charge": None, "suffix": "", "electron": False}
        items.append({"f": mk(a), "c": b * k})
        items.append({"f": mk(b), "c": a * k})


@st.composite
def mixtures(draw, with_call=False):
    n = draw(st.integers(1, 6))
    kind = draw(st.sampled_from(["dict_int", "dict_int", "dict_float", "set"]))
    items = []
    for _ in range(n):
        f = draw(G.formulas(max_depth=3, max_terms=4))
        if kind == "dict_int":
            c = draw(st.integers(1, 20)) if draw(st.integers(0, 9)) < 9 else draw(st.integers(21, 10 ** 6))
        elif kind == "dict_float":
            c = draw(st.integers(1, 10 ** 6)) / draw(st.sampled_from([1.0, 2.0, 8.0, 10.0, 1000.0, 3.0, 7.0]))
        else:
            c = 1
        items.append({"f": f, "c": c})
    if draw(st.integers(0, 9)) >= 6:         # measured: a third of the evaluated mixtures get such components
        _add_twins(draw, kind, items)
        if draw(st.integers(0, 4)) == 4:
            _add_twins(draw, kind, items)
    case = {"kind": kind, "items": items}
    if with_call:
        case["call"] = draw(call_variants(len(items)))
    return case


def _mass_interval(comp, ram, c=Fraction(1)):
    """[lo, hi] of c * mass for a reference composition (electron constant anywhere in [ME_LO, ME_HI])."""
    lo, hi = mass_window(comp, ram)
    return c * lo, c * hi


def judge_fractions(ctx, got, stoich, comps, ram, **where):
    """got: what mass_fractions returned for {key: coefficient}; comps: key -> reference composition.
    Positive, sum to one, f_i = c_i m_i / sum_j c_j m_j with m from the reference model.  False if a clause failed."""
    keys = list(stoich)
    if not isinstance(got, dict) or set(got) != set(keys):
        ctx.fail("keys", got=sorted(map(str, got)) if isinstance(got, dict) else repr(got), expected=sorted(keys), **where)
        return False
    for k, v in got.items():
        if not _is_real(v):
            ctx.fail("fraction_not_a_finite_number", key=k, got=repr(v), **where)
            return False
        ctx.require(v > 0, "fraction_not_positive", key=k, got=v, **where)
    total = sum(Fraction(v) for v in got.values())
    # n <= 12 quotients, each within 2 ulp of c*m/T with the same float T: |sum - 1| <= 12*2*2**-53 < 1e-12
    ok = abs(total - 1) <= Fraction(1, 10 ** 12)
    ctx.require(ok, "fractions_do_not_sum_to_one", total=float(total), keys=sorted(keys), **where)
    # proportional to coefficient*mass: the electron constant is only known to ME_TOL, which gives each c_i*m_i the
    # interval [lo_i, hi_i]
    lo_hi = {k: _mass_interval(comps[k], ram, Fraction(stoich[k])) for k in keys}
    for t in keys:
        lo_i, hi_i = lo_hi[t]
        rest_lo = sum(lo_hi[u][0] for u in keys if u != t)
        rest_hi = sum(lo_hi[u][1] for u in keys if u != t)
        f_lo = lo_i / (lo_i + rest_hi)
        f_hi = hi_i / (hi_i + rest_lo)
        # two more float operations (product, quotient) on top of the sums: 1e-12 relative
        slack = Fraction(1, 10 ** 12)
        v = Fraction(got[t])
        if not (f_lo * (1 - slack) <= v <= f_hi * (1 + slack)):
            ctx.fail("fraction_not_proportional", key=t, got=got[t], lo=float(f_lo), hi=float(f_hi), stoich=stoich, **where)
            return False
    return ok


def _factory_of(name):
    from chempy import Substance, Species
    return {"Substance": Substance.from_formula, "Species": Species.from_formula}[name]


def check_fractions(case, ctx):
    P = _periodic()
    from collections import OrderedDict
    from chempy import mass_fractions
    ram = P.relative_atomic_masses
    call = case.get("call") or {"how": "plain"}
    ctx.label(case["kind"], "n=%d" % len(case["items"]))
    alias = call.get("keys") == "alias"
    entries = []          # (key, formula text, AST, coefficient), distinct formula texts
    seen = set()
    nontriv = False
    for i, it in enumerate(case["items"]):
        t = G.text(it["f"])
        if t in seen:
            ctx.label("duplicate_key_dropped")
            continue
        seen.add(t)
        entries.append(("S%d" % i if alias else t, t, it["f"], it["c"]))
        nontriv = nontriv or _nontrivial(G.stats(it["f"]))
    ctx.nontrivial(nontriv and len(entries) >= 2)
    stoich = {k: c for k, _, _, c in entries}
    comps = {k: G.composition(f) for k, _, f, _ in entries}
    # components with exactly equal coefficient*mass / equal mass, by the reference model (labels only)
    exact = {}
    for k in stoich:
        base, _, z = ref_mass_parts(comps[k], ram)
        exact[k] = (base, z)
    contrib = [(Fraction(stoich[k]) * exact[k][0], Fraction(stoich[k]) * exact[k][1]) for k in stoich]
    ctx.label("equal_contributions" if len(set(contrib)) < len(contrib) else
              "equal_masses_only" if len(set(exact.values())) < len(exact) else "contributions_distinct")
    if case["kind"] == "set":
        arg = set(stoich)
    else:
        arg = OrderedDict(stoich.items()) if call.get("stoich_container") == "OrderedDict" else dict(stoich)

    if call["how"] == "plain":
        got = sut(mass_fractions, arg)
    elif call["how"] == "substances":
        make = _factory_of(call["cls"])
        table = [(k, t) for k, t, _, _ in entries]
        for j, f in enumerate(call["extras"]):
            t = G.text(f)
            if t not in seen:          # an extra that repeats a mixture formula would be the same key
                seen.add(t)
                table.append(("X%d" % j if alias else t, t))
        prio = list(call["order"]) + [0] * len(table)
        arranged = [table[i] for i in sorted(range(len(table)), key=lambda i: (prio[i], i))]
        pairs = []
        for k, t in arranged:
            sub = sut(make, t)
            if is_err(sub):
                ctx.fail("from_formula_raises", text=t, error=repr(sub))
                return
            pairs.append((k, sub))
        mapping = OrderedDict(pairs) if call["container"] == "OrderedDict" else dict(pairs)
        same_order = [k for k, _ in arranged][:len(entries)] == [k for k, _, _, _ in entries]
        ctx.label("substances=", "extras=%d" % (len(table) - len(entries)), "keys:" + call["keys"], "cls:" + call["cls"],
                  call["container"], "mapping_order:" + ("same_prefix" if same_order else "permuted"))
        got = sut(mass_fractions, arg, mapping) if call["positional"] else sut(mass_fractions, arg, substances=mapping)
    else:
        from chempy import Substance
        name = call["factory"]
        ctx.label("substance_factory=" + name, "keys:" + call["keys"])
        if name == "table_lookup":
            make = _factory_of(call["cls"])
            lookup = {}
            for k, t, _, _ in entries:
                sub = sut(make, t)
                if is_err(sub):
                    ctx.fail("from_formula_raises", text=t, error=repr(sub))
                    return
                lookup[k] = sub
            factory = lookup.__getitem__
        elif name == "wrapper":
            factory = lambda key: Substance.from_formula(key)      # noqa: E731
        else:
            factory = _factory_of(name.split(".")[0])
        got = sut(mass_fractions, arg, None, factory) if call["positional"] else \
            sut(mass_fractions, arg, substance_factory=factory)
    if is_err(got):
        ctx.fail("mass_fractions_raises", keys=sorted(stoich), error=repr(got), how=call["how"])
        return
    judge_fractions(ctx, got, stoich, comps, ram, how=call["how"])


# ---------------------------------------------------------------------------------------------------------------
# several substances, several reads (a small history): shared `data` records, repeated and reordered reads
# ---------------------------------------------------------------------------------------------------------------

# free-form `data` records without a 'mass' entry (an explicit data['mass'] overrides the computed mass: not the
# mass "of a substance created from a formula" the statement speaks about)
RECORDS = [{"source": "supplier catalogue", "purity": 0.99}, {"pKa": 9.24}, {"note": ""},
           {"cas": "7732-18-5", "refs": [1, 2]}]


@st.composite
def shared_data_cases(draw):
    n = draw(st.integers(2, 4))
    formulas = [draw(G.formulas(max_depth=3, max_terms=4)) for _ in range(n)]
    mode = draw(st.sampled_from(["shared", "shared", "shared_empty", "groups", "own", "none"]))
    rec = lambda: draw(st.sampled_from(RECORDS))       # noqa: E731
    if mode == "shared":
        dicts, data_of = [rec()], [0] * n
    elif mode == "shared_empty":
        dicts, data_of = [{}], [0] * n
    elif mode == "groups":
        dicts = [rec() if draw(st.booleans()) else {}, rec()]
        data_of = [draw(st.sampled_from([0, 1, None])) for _ in range(n)]
    elif mode == "own":
        r = rec()
        dicts, data_of = [r] * n, list(range(n))
    else:
        dicts, data_of = [], [None] * n
    ops = []
    for _ in range(draw(st.integers(2, 8))):
        k = draw(st.integers(0, 9))
        if k < 6:
            ops.append(["mass", draw(st.integers(0, n - 1))])
        elif k < 7:
            ops.append(["molar_mass", draw(st.integers(0, n - 1))])
        else:
            idx = draw(st.lists(st.integers(0, n - 1), min_size=1, max_size=n, unique=True))
            ops.append(["fractions", idx, [draw(st.integers(1, 20)) for _ in idx], draw(st.booleans())])
    return {"formulas": formulas, "mode": mode, "dicts": dicts, "data_of": data_of, "ops": ops,
            "lazy": draw(st.booleans()), "cls": draw(st.sampled_from(["Substance", "Substance", "Species"]))}


def check_shared_data(case, ctx):
    """Substances are created with Cls.from_formula(text[, data=<dict>]) where several of them may be given the *same*
    dict object; then masses / molar masses / mass fractions are read in the order of case['ops'] and finally every
    mass once more.  Every value read is judged against the reference mass of *its own* formula."""
    import copy
    import quantities as pq
    P = _periodic()
    from chempy import mass_fractions
    ram = P.relative_atomic_masses
    make = _factory_of(case["cls"])
    formulas = case["formulas"]
    n = len(formulas)
    texts = [G.text(f) for f in formulas]
    comps = [G.composition(f) for f in formulas]
    dicts = [copy.deepcopy(d) for d in case["dicts"]]          # one dict object per entry, shared by reference below
    subs = [None] * n
    reads = [0] * n
    ctx.label("mode:" + case["mode"], "cls:" + case["cls"], "lazy" if case["lazy"] else "eager", "n=%d" % n)
    shared_nonempty = any(case["data_of"].count(j) >= 2 and case["dicts"][j] for j in range(len(dicts)))
    shared_empty = any(case["data_of"].count(j) >= 2 and not case["dicts"][j] for j in range(len(dicts)))
    ctx.label("data:shared_nonempty" if shared_nonempty else "data:shared_empty" if shared_empty else "data:not_shared")
    ctx.nontrivial(len(set(texts)) >= 2 and any(_nontrivial(G.stats(f)) for f in formulas))

    def get(i):
        if subs[i] is None:
            j = case["data_of"][i]
            sub = sut(make, texts[i]) if j is None else sut(make, texts[i], data=dicts[j])
            if is_err(sub):
                ctx.fail("from_formula_raises", text=texts[i], error=repr(sub))
                return None
            subs[i] = sub
        return subs[i]

    def judge_mass(i, m, step, what):
        if not _is_real(m):
            ctx.fail("mass_not_a_finite_number", text=texts[i], got=repr(m), step=step, read=what)
            return False
        lo, hi = mass_window(comps[i], ram)
        if not (lo <= Fraction(m) <= hi):
            ctx.fail("mass_vs_formula_in_sequence", text=texts[i], got=m, lo=float(lo), hi=float(hi), step=step, read=what,
                     mode=case["mode"], texts=texts)
            return False
        return True

    if not case["lazy"]:
        for i in range(n):
            if get(i) is None:
                return
    seen_fractions = False
    for step, op in enumerate(case["ops"]):
        if op[0] in ("mass", "molar_mass"):
            sub = get(op[1])
            if sub is None:
                return
            if op[0] == "mass":
                m = sub.mass
            else:
                mm = sub.molar_mass()
                m = float(mm.rescale(pq.g / pq.mol).magnitude)      # one multiplication by 1.0 g/mol: same number
            reads[op[1]] += 1
            if reads[op[1]] > 1:
                ctx.label("mass_read_again")
            if seen_fractions:
                ctx.label("mass_read_after_fractions")
            if not judge_mass(op[1], m, step, op[0]):
                return
        else:
            _, idx, coefs, whole_table = op
            stoich, fcomps = {}, {}
            for i, c in zip(idx, coefs):
                if get(i) is None:
                    return
                if texts[i] not in stoich:               # the same formula drawn twice: one key
                    stoich[texts[i]] = c
                    fcomps[texts[i]] = comps[i]
            members = idx if not whole_table else [i for i in range(n) if subs[i] is not None]
            table = {}
            for i in members:
                table.setdefault(texts[i], subs[i])
            ctx.label("fractions_of_created_substances", "whole_table" if whole_table else "members_only")
            got = sut(mass_fractions, dict(stoich), substances=table)
            if is_err(got):
                ctx.fail("mass_fractions_raises", keys=sorted(stoich), error=repr(got), step=step)
                return
            seen_fractions = True
            if not judge_fractions(ctx, got, stoich, fcomps, ram, step=step, mode=case["mode"]):
                return
    for i in range(n):              # finally every substance once more, in index order
        sub = get(i)
        if sub is None or not judge_mass(i, sub.mass, "final", "mass"):
            return


SUBCHECKS = [
    SubCheck("table", check_table, enumerate=enum_table,
             rule="118 elements + container shapes + groups, exhaustive in both tiers",
             tolerances={"standard_atomic_weight_rel": REL_WEIGHT, "mass_number_abs": MASSNO_SLACK}),
    SubCheck("lookup_unknown", check_unknown, strategy=unknown_names(), quick=400, thorough=20000,
             rule="non-symbol tokens, perturbed element names, glued symbols, historic names; must raise"),
    SubCheck("mass", check_mass, strategy=G.formulas(max_depth=4, max_terms=6), quick=3000, thorough=150000,
             rule="G1 formulas, depth<=4, <=6 terms per level",
             tolerances={"float_sum_rel_to_sum_abs_terms": float(REL_SUM), "electron_mass_u": [float(ME_LO), float(ME_HI)]}),
    SubCheck("mass_deep", check_mass, strategy=G.formulas(max_depth=8, max_terms=10, max_hydrates=3), quick=300, thorough=20000,
             rule="G1 formulas, depth<=8, <=10 terms per level, <=3 hydrate parts",
             tolerances={"float_sum_rel_to_sum_abs_terms": float(REL_SUM), "electron_mass_u": [float(ME_LO), float(ME_HI)]}),
    SubCheck("metamorphic", check_metamorphic, strategy=metamorphic_cases(), quick=600, thorough=30000,
             rule="A (neutral, <=3 parts), B (neutral single part): mass(A..nB)=mass(A)+n mass(B); mass((A)k)=k mass(A); "
                  "mass(A^z)-mass(A)=-z m_e for two charges z1, z2 with one constant",
             tolerances={"float_sum_rel_to_sum_abs_terms": float(REL_SUM), "electron_mass_u": [float(ME_LO), float(ME_HI)]}),
    SubCheck("fractions", check_fractions, strategy=mixtures(), quick=600, thorough=30000,
             rule="1-6 distinct G1 formulas, coefficients int 1..1e6 / positive floats / set (unit multiplicity); in a third "
                  "of the cases plus components with exactly equal coefficient*mass (or equal mass): the same compound "
                  "under another key (suffix, prefix, primes, hydrate separator), X and (X)n in proportion n:1, "
                  "allotropes E_a, E_b in proportion b:a",
             tolerances={"sum_to_one_abs": 1e-12, "proportional_rel": 1e-12}),
    SubCheck("fractions_args", check_fractions, strategy=mixtures(with_call=True), quick=600, thorough=15000,
             rule="the same mixtures through the other two parameters of mass_fractions: substances= a dict/OrderedDict "
                  "of Substance/Species objects in the order of the stoichiometry or permuted, with 0-3 unrelated extra "
                  "entries, keyed by the formula or by a label; substance_factory= Substance.from_formula, "
                  "Species.from_formula, a wrapper, a table lookup; by keyword or by position",
             tolerances={"sum_to_one_abs": 1e-12, "proportional_rel": 1e-12}),
    SubCheck("shared_data", check_shared_data, strategy=shared_data_cases(), quick=600, thorough=15000,
             rule="2-4 substances from G1 formulas via Substance/Species.from_formula(text[, data=d]) with one free-form "
                  "dict d (non-empty or empty, no 'mass' entry) shared by all / by groups / own copies / none, created up "
                  "front or at first use; 2-8 reads (.mass, .molar_mass(), mass_fractions(..., substances=<these "
                  "objects>)) in generated order with repeats, then every mass once more; each value against the "
                  "reference mass of its own formula",
             tolerances={"float_sum_rel_to_sum_abs_terms": float(REL_SUM), "electron_mass_u": [float(ME_LO), float(ME_HI)],
                         "sum_to_one_abs": 1e-12, "proportional_rel": 1e-12}),
]

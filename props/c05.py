# -*- coding: utf-8 -*-
"""C05 - only balanced reactions are admitted; composition vectors are exact invariants of the kinetic right-hand side,
are conserved by numerical integration and are reproduced by the analytic eliminations (linear_dependencies)."""
import re
import warnings
from collections import OrderedDict
from fractions import Fraction

from hypothesis import strategies as st  # noqa

from vlib import env  # noqa  (sys.path)
from vlib.harness import SubCheck, sut, is_err, short
from vlib import gen_c04 as G

PROPERTY = "C05"
LEVEL = "exploration"
RULE = ("Substances all carry compositions: synthetic keys with explicit composition dicts (1-3 element keys, optional "
        "charge given in the dict or through Substance(charge=)), real formulas from seven hand-checked families "
        "(water/radiolysis, carbonate, copper-ammonia, iron, nitrogen oxides, combustion, salts incl. a hydrate and a "
        "parenthesised salt; parsed by Substance.from_formula or passed explicitly) and G1-style association complexes "
        "'(X)a(Y)b' of generated formulas.  Reactions are balanced by construction (integer combinations of an exact "
        "null-space basis of the composition matrix, plus catalysts and inactive coefficients); 'admit' breaks one "
        "reaction at a random position in about a third of the cases: charge only, one element only, one coefficient, or a "
        "dropped species.  In four tenths of the 'admit' cases compositions, charges and stoichiometric coefficients need "
        "not be integers: dyadic values (multiples of 1/8 and smaller powers of two, so a balanced reaction has an exactly "
        "zero float net) in explicit compositions ({8: 2.25}, charge 0.5 in the dict or as argument), decimal subscripts "
        "in formulas ('UO2.25', 'Fe0.875O', '[Fe0.5O]2.5'; families urania/ferrites and generated complexes), "
        "coefficients written as floats or Fractions (Reaction(..., dont_check={'all_integral'}) or explicit checks=; "
        "integral floats such as 2.0 with the default checks); the broken variants then include imbalances of 1/16 .. 3/2 "
        "in one key (charge only, one element only; labels 'imbalance<=1/2:*') and coefficients off by 1/8 .. 1.  "
        "In two tenths of the cases (both sub-checks) one or two substances without elements and charge take part "
        "(composition {} - a photon -, {0: 0}, or Substance(charge=0, composition={})); explicitly composed charged "
        "substances, also those of the families, get their charge in the dict or through Substance(charge=), including "
        "pure charge carriers (Substance('e-', charge=-1, composition={}), holes); every Substance object is first compared "
        "with the description (composition incl. key 0, .charge).  "
        "Each 'admit' case is a short history in one process: 0-2 earlier constructions of the same description through "
        "dont_check= / checks= (subsets of the four ReactionSystem check names, ReactionSystem or EqSystem), then the judged "
        "construction with default arguments; ReactionSystem/EqSystem/Reaction/Equilibrium.default_checks are reset to "
        "the sets read from the source at the start of a case and must be unchanged at its end.  "
        "The expected verdict is recomputed from the description with exact integer / Fraction arithmetic.  "
        "Non-trivial = (>= 2 reactions and a charged substance) or a charge-only rejection; distinct by case digest.")
ASSUMPTIONS = [
    "hand-written compositions of the species families in vlib/gen_c04.py (cross-checked once against the parser)",
    "vlib/gen_formula.composition for the generated association complexes",
    "sympy expands B*f symbolically; scipy/pyodesys integrate (failure = inconclusive)",
]

# A linear invariant is preserved by every linear multistep / Runge-Kutta step up to rounding (B f = 0 and B J = 0), so the
# drift is ~1e-13 of the scale in practice; 1e-6 of sum |B_ri| max_t |y_i| is far above that and far below the O(1) drift
# produced by any right-hand side that does not conserve the key.
TOL_CONSERVATION = 1e-6
# float masses: sum of <= ~30 products, each rounded to 1 ulp: 1e-9 of sum |nu_i| m_i is ample
TOL_MASS = 1e-9

MSG = re.compile(r"\((-?\d+): ")


def _mods():
    from chempy import Reaction, ReactionSystem, Substance, Equilibrium
    from chempy.equilibria import EqSystem
    from chempy.kinetics.ode import get_odesys, _create_odesys
    return locals()


def make_substances(M, case):
    out = OrderedDict()
    for s in case["subs"]:
        if s["how"] == "formula":
            out[s["key"]] = M["Substance"].from_formula(s["key"])
        else:
            comp = {int(k): v for k, v in s["comp"].items()}
            if s.get("charge_arg") and 0 in comp:
                q = comp.pop(0)
                out[s["key"]] = M["Substance"](s["key"], charge=q, composition=comp)
            else:
                out[s["key"]] = M["Substance"](s["key"], composition=comp)
    return out


# how a reaction with non-integer coefficients is admitted by the Reaction constructor (default_checks has 'all_integral')
REACTION_CHECKS = {"default": {}, "dont_check": {"dont_check": {"all_integral"}},
                   "checks": {"checks": ("any_effect", "all_positive", "consistent_units")}}


def make_reactions(M, case, params, cls="Reaction"):
    def part(d):
        return {k: G.num(v) for k, v in d.items()}      # int | float | Fraction as written in the case
    return [M[cls](part(rx["reac"]), part(rx["prod"]), params[j],
                   inact_reac=part(rx["ireac"]) or None, inact_prod=part(rx["iprod"]) or None,
                   **REACTION_CHECKS[rx.get("checks", "default")])
            for j, rx in enumerate(case["rxns"])]


def jnum(v):
    """exact number -> JSON (int, or float: the values are dyadic)"""
    return int(v) if v == int(v) else float(v)


def construct(M, case, rxns, subs, **kw):
    if rxns and isinstance(rxns[0], M["Equilibrium"]):
        return M["EqSystem"](rxns, subs, **kw)
    if case.get("route") == "keys" and all(s["how"] == "formula" for s in case["subs"]):
        return M["ReactionSystem"](rxns, [s["key"] for s in case["subs"]], substance_factory=M["Substance"].from_formula, **kw)
    return M["ReactionSystem"](rxns, subs, **kw)


def check_substances(ctx, case, subs):
    """Every Substance object carries the composition of the description: composition (incl. key 0) and .charge."""
    ok = True
    for s in case["subs"]:
        want = {int(k): v for k, v in s["comp"].items()}
        obj = subs[s["key"]]
        if obj.composition != want:
            ctx.fail("substance_composition", key=s["key"], how=s["how"], charge_arg=bool(s.get("charge_arg")),
                     got=short(repr(obj.composition), 200), expected={str(k): v for k, v in want.items()})
            ok = False
        elif obj.charge != want.get(0, 0):
            ctx.fail("substance_charge", key=s["key"], got=repr(obj.charge), expected=want.get(0, 0))
            ok = False
    return ok


def describe(case, ctx):
    subs = case["subs"]
    charged = any(s["comp"].get("0") for s in subs)
    ctx.label("kind=" + case["kind"], case["cls"], "nr=%d" % min(len(case["rxns"]), 6), "ns=%d" % min(len(subs), 8))
    if charged:
        ctx.label("charged")
    hows = set(s["how"] for s in subs)
    ctx.label(*("how=" + h for h in sorted(hows)))
    if any(s.get("charge_arg") for s in subs):
        ctx.label("charge_via_argument")
        for s in subs:
            if s.get("charge_arg") and set(s["comp"]) == {"0"}:
                q = s["comp"]["0"]
                ctx.label("charge_via_argument_with_empty_composition:" + ("negative" if q < 0 else "positive" if q else "zero"))
    if any(not any(s["comp"].values()) for s in subs):
        ctx.label("massless_substance", *("massless:composition=" + ("{}" if not s["comp"] else "{0: 0}")
                                          for s in subs if not any(s["comp"].values())))
    if any(s["comp"].get("0") and set(s["comp"]) == {"0"} for s in subs):
        ctx.label("pure_charge_substance")
    if any(rx["ireac"] or rx["iprod"] for rx in case["rxns"]):
        ctx.label("inactive_coeff")
    if any(set(rx["reac"]) & set(rx["prod"]) for rx in case["rxns"]):
        ctx.label("catalyst")
    if any(not isinstance(v, int) for s in subs for k, v in s["comp"].items() if k != "0"):
        ctx.label("noninteger_composition")
    if any(not isinstance(s["comp"].get("0", 0), int) for s in subs):
        ctx.label("noninteger_charge")
    styles = set(rx.get("coef", "int") for rx in case["rxns"])
    if styles != {"int"}:
        ctx.label(*("coefficients=" + c for c in sorted(styles - {"int"})))
        if any(G.net(rx, k) != int(G.net(rx, k)) for rx in case["rxns"] for k in G.rx_keys(rx)):
            ctx.label("noninteger_net_coefficient")
        ctx.label(*("reaction_checks=" + c for c in sorted(set(rx.get("checks", "default") for rx in case["rxns"]))))
    return charged


def check_balance_vectors(ctx, rsys, case, what):
    """composition_balance_vectors() == composition matrix of the description (rows sorted keys, columns substances)."""
    Bref, ck = G.comp_matrix(case["subs"])
    A, keys = rsys.composition_balance_vectors()
    if list(keys) != ck:
        ctx.fail("balance_vector_keys", got=list(keys), expected=ck, what=what)
        return None
    got = [[v for v in row] for row in A]
    if got != Bref:
        ctx.fail("balance_vector_entries", got=got, expected=Bref, what=what)
        return None
    return Bref, ck


# ---------------------------------------------------------------------------------------------------
# admit: accepted iff balanced
# ---------------------------------------------------------------------------------------------------

# the class-level sets of optional checks as read from the source (chempy/reactionsystem.py, chempy/chemistry.py)
SYSTEM_CHECKS = frozenset(G.SYSTEM_CHECKS)
REACTION_CHECKS_DEFAULT = frozenset(["any_effect", "all_positive", "all_integral", "consistent_units"])


def class_defaults(M):
    return [("ReactionSystem", M["ReactionSystem"], SYSTEM_CHECKS), ("EqSystem", M["EqSystem"], SYSTEM_CHECKS),
            ("Reaction", M["Reaction"], REACTION_CHECKS_DEFAULT), ("Equilibrium", M["Equilibrium"], REACTION_CHECKS_DEFAULT)]


def check_admit(case, ctx):
    """One case = a short history in one process: 0-2 earlier constructions through dont_check= / checks=, then the judged
    construction with default arguments; the class-level default_checks must be what they were."""
    M = _mods()
    # every case starts from pristine class attributes (a case must not inherit what an earlier case of this process may
    # have done to them; on the unchanged tree this changes nothing)
    for _, cls, want in class_defaults(M):
        if cls.default_checks != want:
            owner = next(k for k in cls.__mro__ if "default_checks" in vars(k))
            owner.default_checks = set(want)
    earlier_constructions(M, case, ctx)
    check_admit_verdict(M, case, ctx)
    for nm, cls, want in class_defaults(M):
        if cls.default_checks != want:
            ctx.fail("default_checks_changed_by_construction", cls=nm, got=sorted(cls.default_checks), expected=sorted(want))
            return


def earlier_constructions(M, case, ctx):
    balanced = not any(G.violations(case["subs"], rx) for rx in case["rxns"])
    for b in case.get("before") or ():
        ctx.label("before:%s%s" % (b["arg"], "(balance)" if "balance" in b["names"] else ""))
        kw = {"dont_check": set(b["names"])} if b["arg"] == "dont_check" else {"checks": tuple(b["names"])}
        cls = "Equilibrium" if b["route"] == "eqsys" else "Reaction"
        rxns = make_reactions(M, case, [j + 1 for j in range(len(case["rxns"]))], cls)
        res = sut(construct, M, dict(case, route=b["route"]), rxns, make_substances(M, case), **kw)
        # judged only where the balance check was asked for (the statement says nothing about a system built without it)
        if ("balance" in b["names"]) == (b["arg"] == "checks") and is_err(res) == balanced:
            ctx.fail("earlier_construction_with_balance_check", arg=b["arg"], names=b["names"], balanced=balanced,
                     error=repr(res) if is_err(res) else None)


def check_admit_verdict(M, case, ctx):
    charged = describe(case, ctx)
    viol = [G.violations(case["subs"], rx) for rx in case["rxns"]]
    balanced = not any(viol)
    ctx.nontrivial((len(case["rxns"]) >= 2 and charged) or case["cls"] == "broken:charge_only")
    if not balanced:
        ctx.label("first_broken_at=%d" % min(i for i, v in enumerate(viol) if v))
        allk = set()
        for v in viol:
            allk.update(v)
        which = "charge_only" if allk == {0} else "one_element" if (len(allk) == 1) else "several"
        ctx.label("violated:" + which)
        # size of the largest imbalance (in any key of any reaction): small ones must be rejected like any other
        big = max(abs(x) for v in viol for x in v.values())
        if big < 1:
            ctx.label("imbalance<=1/2:" + which if 2 * big <= 1 else "imbalance<1:" + which)
    subs = make_substances(M, case)
    if not check_substances(ctx, case, subs):
        return
    eqsys = case.get("route") == "eqsys"
    if eqsys:
        ctx.label("route=EqSystem")
    rxns = make_reactions(M, case, [j + 1 for j in range(len(case["rxns"]))], "Equilibrium" if eqsys else "Reaction")
    res = sut(construct, M, case, rxns, subs)
    if balanced:
        if is_err(res):
            ctx.fail("balanced_system_rejected", error=repr(res))
            return
        ref = check_balance_vectors(ctx, res, case, "accepted")
        if res.check_balance(strict=True) is not True:
            ctx.fail("check_balance_false_for_balanced")
        if res.obeys_charge_neutrality() is not True:      # integer or dyadic charges and coefficients: exact in floats
            ctx.fail("obeys_charge_neutrality_false_for_balanced")
        if eqsys and ref is not None and ref[1]:
            # (without any composition key there is no total to report: composition_conservation is not called - on such a
            # system it raises ValueError from numpy.dot on the empty matrix, a loud refusal outside the statement)
            # EqSystem.composition_conservation: totals of small integer vectors are exact in floating point
            Bref, ck = ref
            c1 = [(3 * i + 1) % 7 for i in range(len(subs))]
            c0 = [(5 * i + 2) % 11 for i in range(len(subs))]
            keys_, t1, t0 = res.composition_conservation(dict(zip(subs, c1)), dict(zip(subs, c0)))
            want1 = [sum(b * c for b, c in zip(row, c1)) for row in Bref]
            want0 = [sum(b * c for b, c in zip(row, c0)) for row in Bref]
            if list(keys_) != ck or [float(x) for x in t1] != want1 or [float(x) for x in t0] != want0:
                ctx.fail("composition_conservation_totals", got=[list(keys_), [float(x) for x in t1], [float(x) for x in t0]],
                         expected=[ck, want1, want0])
    else:
        if not is_err(res):
            ctx.fail("unbalanced_system_accepted", violations=[{str(k): jnum(v) for k, v in d.items()} for d in viol])
            return
        if res.type != "ValueError":
            ctx.fail("rejection_not_ValueError", error=repr(res))
            return
        m = MSG.search(res.msg)
        if "omposition violation" not in res.msg or not m:
            ctx.fail("rejection_message_names_no_key", error=repr(res))
            return
        named = int(m.group(1))
        violated = set()
        for v in viol:
            violated.update(v)
        if named not in violated:
            ctx.fail("rejection_names_unviolated_key", named=named, violated=sorted(violated), error=repr(res))
            return
        loose = construct(M, case, rxns, subs, checks=())
        if loose.check_balance(strict=True) is not False:
            ctx.fail("check_balance_true_for_unbalanced")
        if loose.obeys_charge_neutrality() is not (not any(0 in v for v in viol)):
            ctx.fail("obeys_charge_neutrality_wrong_for_unbalanced",
                     violations=[{str(k): jnum(x) for k, x in d.items()} for d in viol])
    # per-reaction helpers (anchors): charge exactly, mass within rounding
    for rx, rxn, v in zip(case["rxns"], rxns, viol):
        q = rxn.charge_neutrality_violation(subs)
        if q != v.get(0, 0):
            ctx.fail("charge_neutrality_violation_value", got=q, expected=jnum(v.get(0, 0)))
            return
        if not v:
            scale = sum(abs(G.net(rx, k)) * abs(subs[k].mass) for k in subs)
            mv = rxn.mass_balance_violation(subs)
            if not abs(mv) <= TOL_MASS * scale:
                ctx.fail("mass_balance_violation_of_balanced_reaction", got=mv, scale=scale)
                return


# ---------------------------------------------------------------------------------------------------
# dynamics: invariants of the right-hand side, conservation, eliminations
# ---------------------------------------------------------------------------------------------------

def _rat(x):
    import sympy
    x = Fraction(x)
    return sympy.Rational(x.numerator, x.denominator)


def check_dynamics(case, ctx):
    import numpy as np
    import sympy
    M = _mods()
    charged = describe(case, ctx)
    subs_d = case["subs"]
    keys = [s["key"] for s in subs_d]
    ns = len(keys)
    ctx.nontrivial(len(case["rxns"]) >= 2 and charged)
    subs = make_substances(M, case)
    names = ["k_%d" % j for j in range(len(case["rxns"]))]
    rsys = construct(M, case, make_reactions(M, case, names), subs)
    ref = check_balance_vectors(ctx, rsys, case, "dynamics")
    if ref is None:
        return
    Bref, ck = ref
    od, extra = M["get_odesys"](rsys, include_params=False)
    if list(od.names) != keys:
        ctx.fail("names_order", got=list(od.names), expected=keys)
        return
    if not ck:
        # every substance is without elements and charge: there is no composition vector, nothing to conserve
        # (chempy hands linear_invariants=None to the ODE system then)
        ctx.label("no_composition_keys")
        if od.linear_invariants is not None and len(od.linear_invariants) != 0:
            ctx.fail("linear_invariants_without_composition_keys", got=repr(od.linear_invariants)[:200])
        return
    # -- linear invariants handed to the ODE system -----------------------------------------------------
    for what, o in (("get_odesys", od), ("_create_odesys", M["_create_odesys"](rsys, symbolic_kw=dict(jac=False, dfdx=False))[0])):
        li = o.linear_invariants
        got = None if li is None else [[int(x) if x == int(x) else x for x in row] for row in sympy.Matrix(li).tolist()]
        if got != Bref:
            ctx.fail("linear_invariants_entries", builder=what, got=repr(got)[:300], expected=Bref)
            return
        if list(o.linear_invariant_names or []) != [str(k) for k in ck]:
            ctx.fail("linear_invariant_names", builder=what, got=list(o.linear_invariant_names or []), expected=[str(k) for k in ck])
            return
        # exact invariance of the right-hand side: B f == 0 identically in concentrations and rate constants
        Bm = sympy.Matrix(li)
        for r in range(Bm.shape[0]):
            tot = sympy.expand(sum(Bm[r, i] * o.exprs[i] for i in range(ns)))
            if tot != 0:
                ctx.fail("invariant_not_conserved_by_rhs", builder=what, key=ck[r], residual=str(tot)[:300])
                return
    # -- numerical integration keeps the invariants ---------------------------------------------------------
    y0 = [float(case["y0"][k]) for k in keys]
    kvals = {"k_%d" % j: float(rx["k"]) for j, rx in enumerate(case["rxns"])}
    times = [case["tend"] * i / case["npts"] for i in range(case["npts"] + 1)]
    Bf = np.array(Bref, dtype=float)
    with warnings.catch_warnings():
        warnings.simplefilter("ignore")
        res = sut(od.integrate, times, dict(zip(keys, y0)), kvals, integrator="scipy", atol=1e-9, rtol=1e-9, nsteps=5000)
    if is_err(res):
        ctx.skip("integration_raised")
    elif not res.info.get("success", False) or not np.all(np.isfinite(res.yout)) or res.yout.shape != (len(times), ns):
        ctx.skip("integration_failed")
    else:
        ctx.label("integrated")
        yout = np.asarray(res.yout, dtype=float)
        scale = np.abs(Bf) @ np.max(np.abs(yout), axis=0)
        drift = np.max(np.abs((yout - yout[0]) @ Bf.T), axis=0)
        if not np.all(np.abs(yout[0] - np.array(y0)) <= 1e-12 * (1 + np.abs(y0))):
            ctx.fail("integration_does_not_start_at_y0", got=yout[0].tolist(), y0=y0)
            return
        if np.any(yout[-1] != yout[0]):
            ctx.label("state_moved")
        if not np.all(drift <= TOL_CONSERVATION * scale):
            ctx.fail("invariant_drifts_in_integration", drift=drift.tolist(), scale=scale.tolist(), keys=ck)
            return
    # -- analytic eliminations ----------------------------------------------------------------------------------
    ld = extra.get("linear_dependencies")
    if ld is None:
        ctx.fail("linear_dependencies_not_offered")
        return
    y0r = [Fraction(v) for v in y0]
    rk = G.rank(Bref)
    null = G.nullspace_int(Bref, ns)           # directions inside the invariant manifold {y: B y = B y0}
    xi = [Fraction(x) for x in case["xi"]]
    points = []
    for scale_ in (Fraction(1), Fraction(-1, 2)):
        y = list(y0r)
        for m_, vec in enumerate(null):
            y = [a + scale_ * xi[m_] * b for a, b in zip(y, vec)]
        points.append(y)
    y0map = {d: _rat(v) for d, v in zip(od.dep, y0r)}
    for preferred in (None, case["preferred"] or None):
        if preferred is None and rk == ns:
            continue
        label = "ld:default" if preferred is None else "ld:preferred"
        solver = sut(ld, preferred)
        exprs = solver if is_err(solver) else sut(solver, 0, y0map, None, sympy)
        if is_err(exprs):
            if preferred is None or exprs.type != "ValueError":
                ctx.fail("linear_dependencies_raises", preferred=preferred, error=repr(exprs))
                return
            ctx.label("ld:refused")       # no analytic expression offered for this choice: nothing to judge
            continue
        ctx.label(label)
        elim = list(exprs.keys())
        if any(e not in od.dep for e in elim) or len(set(elim)) != len(elim):
            ctx.fail("elimination_of_unknown_variable", preferred=preferred, got=[str(e) for e in elim])
            return
        if preferred is None and len(elim) != rk:
            ctx.fail("elimination_count_differs_from_rank", got=len(elim), rank=rk)
            return
        # soundness: on every point of the invariant manifold each expression returns the eliminated concentration
        for y in points:
            m_ = {d: _rat(v) for d, v in zip(od.dep, y)}
            for d, e in exprs.items():
                val = sympy.sympify(e).xreplace(m_)
                want = m_[d]
                if val.free_symbols or val != want:
                    ctx.fail("elimination_contradicts_invariants", preferred=preferred, variable=str(d),
                             expr=str(e)[:200], got=str(val)[:60], expected=str(want))
                    return
        # completeness: free concentrations chosen arbitrarily + eliminated ones from the expressions satisfy B y = B y0
        if len(elim) == rk:
            free_syms = [d for d in od.dep if d not in exprs]
            if all(sympy.sympify(e).free_symbols <= set(free_syms) for e in exprs.values()):
                ctx.label("ld:complete")
                m_ = {d: _rat(y0r[list(od.dep).index(d)] + xi[i % len(xi)] + i) for i, d in enumerate(free_syms)}
                full = dict(m_)
                for d, e in exprs.items():
                    full[d] = sympy.sympify(e).xreplace(m_)
                for r in range(len(Bref)):
                    lhs = sum(Bref[r][i] * full[od.dep[i]] for i in range(ns))
                    rhs = sum(Bref[r][i] * _rat(y0r[i]) for i in range(ns))
                    if lhs - rhs != 0:
                        ctx.fail("eliminations_do_not_reproduce_invariant", preferred=preferred, key=ck[r],
                                 residual=str(lhs - rhs)[:80])
                        return


SUBCHECKS = [
    SubCheck("admit", check_admit, strategy=G.composed_systems(max_rxn=6, dyadic_share=4, massless_share=2, history=True), quick=2000, thorough=60000,
             rule="1-6 reactions, one of them possibly broken; constructor verdict, error message, check_balance, "
                  "composition_balance_vectors, charge/mass violation helpers",
             tolerances={"mass_balance_rel_sum_abs": TOL_MASS}),
    SubCheck("dynamics", check_dynamics, strategy=G.composed_systems(max_rxn=5, broken=False, kinetics=True, massless_share=2), quick=400,
             thorough=10000,
             rule="balanced systems with rate constants 1e-4..1e3, y0 in {0..3}: linear_invariants of both builders, "
                  "symbolic B*f == 0, scipy integration (atol=rtol=1e-9), linear_dependencies() and (preferred)",
             tolerances={"conservation_rel_absB_max_abs_y": TOL_CONSERVATION}),
]

# -*- coding: utf-8 -*-
"""C16 - rate-constant models and rate expressions evaluate to their defining formulas under every backend."""
import math

import mpmath as mpm

from vlib import env  # noqa  (sys.path)
from vlib.harness import SubCheck, sut, is_err, short
from vlib import gen_c16 as G
from vlib.gen_c16 import N, Q, Ref, Builder, Singular, ZERO

PROPERTY = "C16"
LEVEL = "exploration"
RULE = ("Cases are JSON descriptions of (a) an Arrhenius/Eyring parameter set with a reaction of order 1..3 and "
        "(b) an expression tree whose leaves are instances of every expression class of kinetics/rates.py, "
        "kinetics/_rates.py, thermodynamics/expressions.py and util/_expr.py, built by construction (positive "
        "denominators and power bases, temperatures 200..2000 K inside every piecewise domain).  Every number is an SI "
        "value plus a unit product; plain-float configurations (math, numpy, sympy symbols then subs) receive the SI "
        "value, the units configurations (Backend(), and the default backend where no unit can survive inside a "
        "transcendental function) receive value/factor * unit with factors from an own table - every quantity in its "
        "own unit for single classes and parameter sets, one unit name per base dimension for trees.  The expected "
        "number is the defining formula evaluated with mpmath (50 digits) on the description; a unique_keys / named "
        "override replaces exactly one argument in that formula.  Non-trivial: params - order >= 2 and a non-SI "
        "unit; classes - a class needing the reaction with order >= 2, a non-SI unit, or a nested argument; trees - "
        "depth >= 3 mixing >= 3 operators; override - at least one overridden and one kept keyed argument.")
ASSUMPTIONS = [
    "values of R, k_B/h, eV and N_A are read from chempy/quantities (the formula is judged, not the constant)",
    "conversion of a *result* to SI uses quantities' own `simplified`; inputs use the own SI-factor table of vlib/gen_c16.py",
    "tolerance 1e-10 relative to the propagated condition scale (sum of absolute terms; |x| for exp(x), ...)",
]

RTOL = 1e-10       # 1e-10 ~ 5e5 ulp of the condition scale: covers <= ~1e3 roundings plus few-ulp library functions
RTOL_RT = 1e-12    # from_rateconst_at_T round trip (scale = k * max(1, 2 Ea/RT))


# ---------------------------------------------------------------------------------------------------------------
# shared helpers
# ---------------------------------------------------------------------------------------------------------------
_CONST = {}


def constants():
    """Physical constants as chempy documents them (values are not judged)."""
    if not _CONST:
        from chempy.units import default_units as u, default_constants as dc
        from chempy.kinetics import arrhenius, eyring
        _CONST["R_float"] = float(arrhenius._get_R())
        _CONST["kBh_float"] = float(eyring._get_kB_over_h())
        _CONST["R_units"] = float(dc.molar_gas_constant.simplified.magnitude)
        _CONST["kBh_units"] = float((dc.Boltzmann_constant / dc.Planck_constant).simplified.magnitude)
        G.set_constants(float(u.eV.simplified.magnitude), float(dc.Avogadro_constant.simplified.magnitude))
    return _CONST


def plain(x):
    """Magnitude of a result as python float (None when it is not a real number)."""
    try:
        if hasattr(x, "magnitude") and hasattr(x, "dimensionality"):
            x = x.magnitude
        if hasattr(x, "item") and getattr(x, "ndim", 1) == 0:
            x = x.item()
        if hasattr(x, "is_number"):           # sympy
            if not x.is_number:
                return None
            c = complex(x.evalf(25))
            if abs(c.imag) > 1e-12 * max(1.0, abs(c.real)):
                return None
            return float(c.real)
        v = float(x)
        return v
    except (TypeError, ValueError, AttributeError):
        return None


def si_value(B, x, d):
    """Result -> (SI magnitude, error string).  x: quantity or number; d: expected dimension vector."""
    if hasattr(x, "dimensionality") and hasattr(x, "simplified"):
        try:
            ratio = (x / B.si_unit(d)).simplified
        except Exception as e:  # noqa
            return None, "cannot simplify: %r" % (e,)
        if dict(ratio.dimensionality):
            return None, "result has units %s, expected dimension (m,kg,s,K,mol)=%s" % (
                x.dimensionality.string, list(d))
        return plain(ratio), None
    if d != ZERO:
        return None, "unit-less result, expected dimension (m,kg,s,K,mol)=%s" % (list(d),)
    return plain(x), None


def close(got, ref, rtol=RTOL):
    """|got - ref| <= rtol * scale (+ denormal floor)."""
    if got is None or got != got or got in (float("inf"), float("-inf")):
        return False
    return abs(mpm.mpf(got) - ref.v) <= rtol * ref.s + mpm.mpf(10) ** -300


def fnum(x):
    return float(x)


# ---------------------------------------------------------------------------------------------------------------
# sub-check: expression classes / trees / overrides
# ---------------------------------------------------------------------------------------------------------------

def _has_log10_expr(case):
    for nd in G.case_nodes(case):
        if nd.get("t") == "fn" and nd["fn"] == "log10":
            return True
    if case["env"].get("lgT") == "expr":
        for nd in G.case_nodes(case):
            if nd.get("t") == "cls" and nd["cls"] in G.POLY and G.POLY[nd["cls"]][0] == "log10_temperature":
                return True
    return False


def _transcendental(case):
    for nd in G.case_nodes(case):
        t = nd.get("t")
        if t == "fn":
            return True
        if t == "op" and nd["op"] == "^" and not G.is_int_literal(nd["b"]):
            return True
        if t == "cls" and nd["cls"] in G.TRANSCENDENTAL:
            return True
        if t == "cls" and nd["cls"] in G.POLY and G.POLY[nd["cls"]][0] == "log10_temperature" \
                and case["env"].get("lgT") == "expr":
            return True
    return False


def _dict_subset(nd):
    return (nd.get("t") == "cls" and nd.get("style") == "dict" and nd.get("args") is not None
            and G.arg_names(nd) is not None and len(nd["args"]) < len(G.arg_names(nd)))


def _via_rate(case):
    if case.get("wrap", "none") != "none":
        return True
    root = case["root"]
    if root.get("t") == "cls" and root["cls"] in ("MassAction", "Radiolytic"):
        return True
    return case.get("via") == "rate"


def _evaluate(case, cfg):
    """Run one configuration.  Returns (dict key -> raw result, builder, subs) ; key None = direct call."""
    import numpy as np
    from chempy import Reaction
    mode = "units" if cfg.startswith("units") else "float"
    numwrap = np.float64 if cfg == "numpy" else None
    B = Builder(case, mode, numwrap)
    expr = B.root()
    symbolic = None
    if cfg == "sympy":
        import sympy
        symbolic = lambda k: sympy.Symbol(k)  # noqa
    variables, subs = B.variables(symbolic)
    if cfg == "math":
        kw = {}
    elif cfg == "numpy":
        kw = {"backend": np}
    elif cfg == "sympy":
        import sympy
        kw = {"backend": sympy}
    elif cfg == "units":
        from chempy.units import Backend
        kw = {"backend": Backend()}
    else:
        kw = {}
    r = case["rxn"]
    if _via_rate(case):
        rxn = Reaction(dict(r["reac"]), dict(r["prod"]), expr, dict(r.get("inact", {})) or None)
        res = rxn.rate(variables, **kw)
    else:
        rxn = B.reaction()
        res = {None: expr(variables, reaction=rxn, **kw)}
    if cfg == "sympy":
        out = {}
        for k, v in res.items():
            out[k] = v.subs(subs) if hasattr(v, "subs") else v
        res = out
    return res, B


def check_expr(case, ctx):
    constants()
    with mpm.workdps(G.DPS):
        _check_expr(case, ctx)


def _labels(case, ctx):
    root = case["root"]
    classes = sorted(set(nd["cls"] for nd in G.case_nodes(case) if nd.get("t") == "cls"))
    for c in classes:
        ctx.label("cls:" + c)
    ctx.label("wrap:" + case.get("wrap", "none"))
    ctx.label("via:" + ("rate" if _via_rate(case) else "call"))
    ops = G.operators(root)
    for o in sorted(ops):
        ctx.label("op:" + o)
    for nd in G.walk(root):
        if nd.get("t") == "op":
            for side, x in (("left", nd["a"]), ("right", nd["b"])):
                if x.get("t") == "q" and not x["u"] and x["v"] in (0, 1, -1, 2) and float(x["v"]) == x["v"]:
                    ctx.label("literal:%s_of_%s" % (side, nd["op"]), "literal:%r" % (x["v"],))
    b = case.get("b")
    if b and b.get("t") == "q" and not b["u"] and b["v"] in (0, 1, -1, 2):
        ctx.label("literal:wrap:" + case.get("wrap", "none"), "literal:%r" % (b["v"],))
    dep = G.depth(root)
    ctx.label("depth:%d" % dep)
    qs = G.case_quantities(case)
    coh = all(G.coherent(q["u"]) for q in qs)
    ctx.label("units:coherent" if coh else "units:mixed")
    nkeys = nover = nkept = 0
    over = case["env"].get("over", {})
    for nd in G.case_nodes(case):
        if nd.get("t") == "cls":
            for k in nd.get("keys") or []:
                nkeys += 1
                if k in over:
                    nover += 1
                else:
                    nkept += 1
            if nd.get("args") is None:
                ctx.label("args:None")
            if nd.get("style"):
                ctx.label("style:" + nd["style"])
            if nd.get("style") == "dict":
                do = nd.get("dorder")
                ctx.label("dict:" + ("by_unique_keys" if G.arg_names(nd) is None else "by_argument_names"))
                if do and list(do) != sorted(do):
                    ctx.label("dict:permuted", "dict:permuted:" + ("by_unique_keys" if G.arg_names(nd) is None else
                                                                   "by_argument_names"))
                if _dict_subset(nd):
                    ctx.label("dict:subset_with_defaults")
            for a in nd.get("args") or []:
                if a.get("t") == "name":
                    ctx.label("arg:named")
                elif a.get("t") not in ("q",):
                    ctx.label("arg:nested")
    if nkeys:
        ctx.label("keys")
    if nover:
        ctx.label("overridden")
    order = sum(case["rxn"]["reac"].values())
    ctx.label("order:%d" % order)
    return {"classes": classes, "ops": ops, "depth": dep, "coherent": coh, "nover": nover, "nkept": nkept,
            "order": order}


def _nontrivial(case, info, sub):
    needs = any(c in G.NEEDS_RXN for c in info["classes"]) or case.get("wrap", "none") != "none"
    nested = any(a.get("t") not in ("q", "name") for nd in G.case_nodes(case) if nd.get("t") == "cls"
                 for a in (nd.get("args") or []))
    if sub == "trees":
        return info["depth"] >= 3 and len(info["ops"]) >= 3
    if sub == "override":
        return info["nover"] >= 1 and info["nkept"] >= 1
    return (needs and info["order"] >= 2) or not info["coherent"] or nested


def _check_expr(case, ctx, sub=None):
    info = _labels(case, ctx)
    ctx.nontrivial(_nontrivial(case, info, case.get("sub")))
    refs = {}
    for mode in ("float", "units"):
        try:
            r = Ref(case, mode)
            v = r.value()
            alts = [v]
            if r.ambiguous:
                ctx.label("piecewise:on_bound")
                r2 = Ref(case, mode, alt=1)
                alts.append(r2.value())
            refs[mode] = (alts, r.ambiguous)
        except Singular as e:
            ctx.label("not_judged:" + str(e).split(":")[0])
            return
    rxn = case["rxn"]
    species = sorted(set(rxn["reac"]) | set(rxn["prod"]) | set(rxn.get("inact", {})))

    def net(k):
        return rxn["prod"].get(k, 0) - rxn["reac"].get(k, 0) - rxn.get("inact", {}).get(k, 0)

    cfgs = ["math", "numpy", "sympy", "units"]
    # a dict naming only the leading arguments of a class with defaults (Eyring, EyringHS): own clause (D-C16f)
    subset = any(_dict_subset(nd) for nd in G.case_nodes(case))
    # Units with the *default* backend (math): transcendental functions of `math` ignore units (documented in
    # chempy.units.Backend), so this configuration is only meaningful where no unit survives inside exp/sin/log/**:
    # no such function at all, or only SI-coherent units, or a unit system whose dimensionless combinations cancel
    # by name (temperature in K, because Arrhenius converts its own argument to K).
    usys = case.get("usys")
    if info["coherent"] or not _transcendental(case) or (usys and usys["K"] == "K"):
        cfgs.append("units_default")
    for cfg in cfgs:
        mode = "units" if cfg.startswith("units") else "float"
        alts, amb = refs[mode]
        if subset:
            got = sut(_evaluate, case, cfg)
            if is_err(got):
                ctx.fail("dict_subset_with_defaults_raises:" + got.type, config=cfg, error=got.msg)
                continue
        elif cfg == "sympy" and _has_log10_expr(case):
            got = sut(_evaluate, case, cfg)
            if is_err(got):
                ctx.fail("sympy_backend_raises:" + got.type, config=cfg, error=got.msg)
                continue
        else:
            got = _evaluate(case, cfg)
        res, B = got
        if _via_rate(case):
            if sorted(res) != species:
                ctx.fail("rate_keys", config=cfg, got=sorted(map(str, res)), expected=species)
                continue
            items = [(k, net(k)) for k in species]
        else:
            items = [(None, 1)]
        for k, factor in items:
            ok = False
            detail = None
            for ref in alts:
                exp = ref.n * factor
                if mode == "units":
                    val, err = si_value(B, res[k], ref.d)
                    if err is not None:
                        detail = ("units_dimension", {"error": err})
                        continue
                else:
                    val = plain(res[k])
                if val is None:
                    detail = ("not_a_number", {"got": short(repr(res[k]), 200)})
                    continue
                if close(val, exp):
                    ok = True
                    break
                detail = ("value", {"got": val, "expected": fnum(exp.v), "scale": fnum(exp.s)})
            if ok:
                continue
            if amb >= 2:
                ctx.label("not_judged:two_piecewise_on_bound")
                continue
            clause, det = detail
            ctx.fail("%s:%s" % (clause, cfg), config=cfg, key=k, **det)
            break


def _with_sub(strategy, name):
    return strategy.map(lambda c: dict(c, sub=name))


# ---------------------------------------------------------------------------------------------------------------
# sub-check: parameter sets
# ---------------------------------------------------------------------------------------------------------------

def check_params(case, ctx):
    C = constants()
    with mpm.workdps(G.DPS):
        _check_params(case, ctx, C)


def _qn(q, mode):
    """Reference number (N) of a quantity description and its dimension."""
    if mode == "float" or not q["u"]:
        return N(q["v"]), ZERO
    m = G.magnitude(q, "units")
    return N(mpm.mpf(m) * G._mpf_frac(G.ufactor(q["u"]))), G.udims(q["u"])


def _k_ref(case, mode, C, T, over=None):
    """k(T) by the defining formula.  over: {'ka': N factor on the first RateExpr argument, 'kb': ... second}."""
    over = over or {}
    R = N(C["R_float" if mode == "float" else "R_units"])
    fa = over.get(0, 1)
    fb = over.get(1, 1)
    if case["kind"] == "arrhenius":
        A, dA = _qn(case["A"], mode)
        Ea, _ = _qn(case["Ea"], mode)
        return (A * fa) * G.nexp(-(Ea / R * fb / T)), dA
    kBh = N(C["kBh_float" if mode == "float" else "kBh_units"])
    dH, _ = _qn(case["dH"], mode)
    dS, _ = _qn(case["dS"], mode)
    return (kBh * G.nexp(dS / R) * fa) * T * G.nexp(-(dH / R * fb / T)), (0, 0, -1, 0, 0)


def _compare(ctx, clause, got, exp, rtol=RTOL, **detail):
    if not close(got, exp, rtol):
        ctx.fail(clause, got=got, expected=fnum(exp.v), scale=fnum(exp.s), **detail)
        return False
    return True


def _check_params(case, ctx, C):
    import numpy as np
    import sympy
    from chempy import Reaction
    from chempy.units import Backend, default_units as u
    from chempy.kinetics.arrhenius import ArrheniusParam, ArrheniusParamWithUnits
    from chempy.kinetics.eyring import EyringParam, EyringParamWithUnits

    kind = case["kind"]
    rxn = case["rxn"]
    order = sum(rxn["reac"].values())
    qs = [case["T"], case["T2"]] + [case["conc"][k] for k in sorted(case["conc"])]
    qs += [case[k] for k in ("A", "Ea", "k", "dH", "dS") if k in case]
    coh = all(G.coherent(q["u"]) for q in qs)
    ctx.label(kind, "order:%d" % order, "units:coherent" if coh else "units:mixed")
    ctx.label("T:" + case["T"]["u"][0][0])
    if case.get("keys"):
        ctx.label("unique_keys", "overridden" if case.get("over") else "keys_not_overridden")
    ctx.nontrivial(order >= 2 and not coh)

    B = Builder({"root": None, "env": {}}, "units")      # only for unit objects
    BF = Builder({"root": None, "env": {}}, "float")
    species = sorted(set(rxn["reac"]) | set(rxn["prod"]) | set(rxn.get("inact", {})))

    def net(k):
        return rxn["prod"].get(k, 0) - rxn["reac"].get(k, 0) - rxn.get("inact", {}).get(k, 0)

    try:
        _params_body(case, ctx, C, kind, rxn, order, species, net, B, BF,
                     np, sympy, Reaction, Backend, u, ArrheniusParam, ArrheniusParamWithUnits, EyringParam,
                     EyringParamWithUnits)
    except Singular as e:
        ctx.label("not_judged:" + str(e).split(":")[0])


def _params_body(case, ctx, C, kind, rxn, order, species, net, B, BF, np, sympy, Reaction, Backend, u,
                 ArrheniusParam, ArrheniusParamWithUnits, EyringParam, EyringParamWithUnits):
    # ---- 1. P(T) ------------------------------------------------------------------------------------------------
    Tf, _ = _qn(case["T"], "float")
    Tu_, _ = _qn(case["T"], "units")
    kf, _ = _k_ref(case, "float", C, Tf)
    ku, dk = _k_ref(case, "units", C, Tu_)
    if kind == "arrhenius":
        Pf = ArrheniusParam(BF.quant(case["A"]), BF.quant(case["Ea"]))
        Pu = ArrheniusParamWithUnits(B.quant(case["A"]), B.quant(case["Ea"]))
    else:
        Pf = EyringParam(BF.quant(case["dH"]), BF.quant(case["dS"]))
        Pu = EyringParamWithUnits(B.quant(case["dH"]), B.quant(case["dS"]))
    Tval = BF.quant(case["T"])
    for name, be in (("default", None), ("math", math), ("numpy", np), ("str_math", "math")):
        got = plain(Pf(Tval, backend=be))
        _compare(ctx, "call_value:" + kind, got, kf, config=name)
    Ts = sympy.Symbol("T")
    sym = Pf(Ts, backend=sympy)
    got = plain(sym.subs({Ts: Tval}))
    _compare(ctx, "call_value:" + kind, got, kf, config="sympy")
    for name, kw in (("units", {}), ("units_Backend", {"backend": Backend()})):
        val, err = si_value(B, Pu(B.quant(case["T"]), **kw), dk)
        if err:
            ctx.fail("call_units_dimension:" + kind, config=name, error=err)
        else:
            _compare(ctx, "call_value_units:" + kind, val, ku, config=name)

    # ---- 2. from_rateconst_at_T ---------------------------------------------------------------------------------
    if kind == "arrhenius":
        for mode, BB, cls, T1 in (("float", BF, ArrheniusParam, Tf), ("units", B, ArrheniusParamWithUnits, Tu_)):
            R = N(C["R_float" if mode == "float" else "R_units"])
            k0, dk0 = _qn(case["k"], mode)
            Ea, _ = _qn(case["Ea"], mode)
            T2, _ = _qn(case["T2"], mode)
            x = Ea / R / T1
            exp1 = N(k0.v, k0.v * max(1, 2 * abs(x.v)))
            exp2 = k0 * G.nexp(-(Ea / R * (1 / T2 - 1 / T1)))
            exp2 = N(exp2.v, max(exp2.s, abs(exp2.v) * 2 * abs(x.v)))
            kws = [("default", {})]
            if mode == "float":
                kws.append(("math", {"backend": math}))
            for name, kw in kws:
                P2 = cls.from_rateconst_at_T(BB.quant(case["Ea"]), (BB.quant(case["T"]), BB.quant(case["k"])), **kw)
                r1, r2 = P2(BB.quant(case["T"])), P2(BB.quant(case["T2"]))
                if mode == "units":
                    (g1, e1), (g2, e2) = si_value(B, r1, dk0), si_value(B, r2, dk0)
                    if e1 or e2:
                        ctx.fail("from_rateconst_units_dimension", config=name, error=e1 or e2)
                        continue
                else:
                    g1, g2 = plain(r1), plain(r2)
                _compare(ctx, "from_rateconst_reproduces_k:" + mode, g1, exp1, RTOL_RT, config=name)
                _compare(ctx, "from_rateconst_other_T:" + mode, g2, exp2, config=name)

    # ---- 3. Reaction(..., P).rate(vars) and as_RateExpr(unique_keys) ----------------------------------------------
    # which of the inputs that end up inside exp() are written in a non-SI-coherent unit (reported with a failure)
    mixed = "+".join(nm for nm, q in (("energy", case.get("Ea") or case.get("dH")), ("temperature", case["T"]))
                     if not G.coherent(q["u"]))
    keys = case.get("keys")
    over = case.get("over") or {}
    R_f, R_u = C["R_float"], C["R_units"]
    for mode, BB, P in (("float", BF, Pf), ("units", B, Pu)):
        T1 = Tf if mode == "float" else Tu_
        ov = {}
        for i, kname in enumerate(keys or []):
            if kname in over:
                ov[i] = N(over[kname])
        kref, dkk = _k_ref(case, mode, C, T1, ov)
        cp = N(1)
        dcp = ZERO
        for s in sorted(rxn["reac"]):
            c, dc = _qn(case["conc"][s], mode)
            cp = cp * c.ipow(rxn["reac"][s])
            dcp = G.dadd(dcp, G.dmul(dc, rxn["reac"][s]))
        if kind == "eyring":      # documented standard state conc0 = 1 molar
            c0 = N(1) if mode == "float" else N(1000)
            kref = kref * c0.ipow(1 - order)
            dkk = G.dadd(dkk, G.dmul(G._CONC, 1 - order)) if mode == "units" else dkk
        rate = kref * cp
        drate = G.dadd(dkk, dcp) if mode == "units" else ZERO
        # variables
        base = {"temperature": BB.quant(case["T"])}
        for s in sorted(case["conc"]):
            base[s] = BB.quant(case["conc"][s])
        # override values: factor times the argument the parameter set itself would have used, computed here
        ovals = {}
        if keys:
            Rn = R_f if mode == "float" else R_u
            for i, kname in enumerate(keys):
                if kname not in over:
                    continue
                f = over[kname]
                if kind == "arrhenius":
                    if i == 0:
                        ovals[kname] = BB.quant(case["A"]) * f
                    else:
                        v = G.magnitude_si(case["Ea"], mode) / Rn * f
                        ovals[kname] = v if mode == "float" else v * u.kelvin
                else:
                    kBh = C["kBh_float" if mode == "float" else "kBh_units"]
                    if i == 0:
                        v = kBh * math.exp(G.magnitude_si(case["dS"], mode) / Rn) * f
                        ovals[kname] = v if mode == "float" else v / u.second / u.kelvin
                    else:
                        v = G.magnitude_si(case["dH"], mode) / Rn * f
                        ovals[kname] = v if mode == "float" else v * u.kelvin
        if mode == "float":
            cfgs = [("math", {}, None), ("numpy", {"backend": np}, None), ("sympy", {"backend": sympy}, "sym")]
        else:
            cfgs = [("units_default", {}, None), ("units_Backend", {"backend": Backend()}, None)]
        for name, kw, symb in cfgs:
            variables = dict(base)
            variables.update(ovals)
            subs = {}
            if symb:
                variables = {}
                for kk, vv in list(base.items()) + list(ovals.items()):
                    variables[kk] = sympy.Symbol(kk)
                    subs[variables[kk]] = vv
            elif name == "numpy":
                variables = {kk: np.float64(vv) for kk, vv in variables.items()}
            if keys:
                ratex = P.as_RateExpr(unique_keys=tuple(keys))
                r = Reaction(dict(rxn["reac"]), dict(rxn["prod"]), ratex, dict(rxn.get("inact", {})) or None)
            else:
                r = Reaction(dict(rxn["reac"]), dict(rxn["prod"]), P, dict(rxn.get("inact", {})) or None)
            res = r.rate(variables, **kw)
            if sorted(res) != species:
                ctx.fail("rate_keys", config=name, got=sorted(map(str, res)), expected=species)
                continue
            for s in species:
                exp = rate * net(s)
                rv = res[s]
                if symb:
                    rv = rv.subs(subs) if hasattr(rv, "subs") else rv
                if mode == "units":
                    val, err = si_value(B, rv, drate)
                    if err:
                        ctx.fail("rate_units_dimension:" + kind, config=name, error=err)
                        break
                else:
                    val = plain(rv)
                clause = "rate_value:%s:%s" % (kind, name)
                if not _compare(ctx, clause, val, exp, config=name, species=s, order=order,
                                unique_keys=bool(keys), mixed=mixed):
                    break


SUBCHECKS = [
    SubCheck("params", check_params, strategy=G.param_cases(), quick=800, thorough=25000,
             rule="ArrheniusParam/EyringParam(+WithUnits): P(T) under default/math/numpy/sympy-subs/units, "
                  "from_rateconst_at_T round trip, Reaction(..., P).rate(vars) for orders 1..3 and "
                  "as_RateExpr(unique_keys) overrides",
             tolerances={"rtol_of_condition_scale": RTOL, "from_rateconst": RTOL_RT}),
    SubCheck("classes", check_expr, strategy=_with_sub(G.class_cases(), "classes"), quick=1800, thorough=50000,
             rule="one instance of every expression class, physically wide argument ranges, list/dict/scalar "
                  "construction (dict keys in any insertion order, by argument_names or unique_keys, trailing "
                  "defaults omitted), named and nested arguments; direct call or Reaction.rate",
             tolerances={"rtol_of_condition_scale": RTOL}),
    SubCheck("trees", check_expr, strategy=_with_sub(G.tree_cases(max_depth=4), "trees"), quick=1800, thorough=60000,
             rule="random trees (depth <= 4) over + - * / ** neg exp log10 with class, Constant, Symbol and literal "
                  "leaves, literal operands 1 / 1.0 / 0 / -1 / 2 on either side of + - * / ** (the values algebraic "
                  "shortcuts test for); MassAction (UnaryWrapper) products/quotients at the root, also with such literals",
             tolerances={"rtol_of_condition_scale": RTOL}),
    SubCheck("trees_deep", check_expr, strategy=_with_sub(G.tree_cases(max_depth=6, keyp=15), "trees"), quick=150,
             thorough=15000, rule="as trees, depth <= 6, more unique keys (values beyond 1e120 are not judged)",
             tolerances={"rtol_of_condition_scale": RTOL}),
    SubCheck("override", check_expr, strategy=_with_sub(G.override_cases(), "override"), quick=1200, thorough=35000,
             rule="class instances with unique_keys (also args=None) inside small trees; a subset of the keys is "
                  "overridden through `variables`",
             tolerances={"rtol_of_condition_scale": RTOL}),
]
